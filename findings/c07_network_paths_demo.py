#!/usr/bin/env python
"""
Demo: server-side QuicConnection._network_paths grows by one entry per distinct
source address that delivers a decryptable packet, and is never pruned.

A real client endpoint completes the handshake, then every following 1-RTT
packet (a PING) is delivered to the server from a fresh (ip, port).  The
server's replies are delivered back to the client so both stay healthy.

Exit 1 = unbounded linear growth observed (defect present); exit 0 = bounded.
"""
import sys

from aioquic.quic.configuration import QuicConfiguration
from aioquic.quic.connection import QuicConnection, QuicConnectionState

CERTS = "/repo/tests/"
CLIENT_ADDR = ("1.2.3.4", 1234)
SERVER_ADDR = ("2.3.4.5", 4433)
CHECKPOINTS = [10, 100, 1000, 5000]


class Clock:
    def __init__(self):
        self.now = 1000.0

    def tick(self, dt=0.001):
        self.now += dt
        return self.now


def transfer(sender, receiver, from_addr, clock):
    n = 0
    for data, _ in sender.datagrams_to_send(now=clock.now):
        receiver.receive_datagram(data, from_addr, now=clock.now)
        n += 1
    return n


def handshake(clock):
    cconf = QuicConfiguration(is_client=True)
    cconf.load_verify_locations(cafile=CERTS + "pycacert.pem")
    client = QuicConnection(configuration=cconf)
    sconf = QuicConfiguration(is_client=False)
    sconf.load_cert_chain(CERTS + "ssl_cert.pem", CERTS + "ssl_key.pem")
    server = QuicConnection(
        configuration=sconf,
        original_destination_connection_id=client.original_destination_connection_id,
    )
    client.connect(SERVER_ADDR, now=clock.now)
    for _ in range(4):
        clock.tick()
        transfer(client, server, CLIENT_ADDR, clock)
        clock.tick()
        transfer(server, client, SERVER_ADDR, clock)
    assert client._handshake_complete and server._handshake_complete
    return client, server


def fresh_addr(i):
    return ("10.%d.%d.%d" % ((i >> 16) & 255, (i >> 8) & 255, i & 255), 1024 + i % 60000)


def main():
    clock = Clock()
    client, server = handshake(clock)
    print("after handshake: len(server._network_paths) = %d" % len(server._network_paths))

    results = {}
    delivered = 0
    for i in range(1, max(CHECKPOINTS) + 1):
        client.send_ping(i)
        clock.tick()
        delivered += transfer(client, server, fresh_addr(i), clock)
        clock.tick()
        transfer(server, client, SERVER_ADDR, clock)
        if i in CHECKPOINTS:
            results[i] = len(server._network_paths)
            print(
                "N=%5d distinct source addresses (%d datagrams): "
                "len(server._network_paths) = %d, server state = %s"
                % (i, delivered, results[i], server._state.name)
            )

    assert server._state == QuicConnectionState.CONNECTED, "server closed the connection"
    lo, hi = CHECKPOINTS[0], CHECKPOINTS[-1]
    slope = (results[hi] - results[lo]) / (hi - lo)
    print("growth per new source address = %.3f entries" % slope)
    if slope > 0.5 and results[hi] >= hi:
        print("FAIL: _network_paths grows linearly with no cap (one entry per source address)")
        return 1
    print("OK: _network_paths stays bounded")
    return 0


if __name__ == "__main__":
    sys.exit(main())
