#!/usr/bin/env python
"""
Server on an unvalidated path: is every datagram carrying an ack-eliciting
Initial packet at least 1200 bytes long, even when the remaining
anti-amplification budget (3 x received - sent) is below 1200?

Client Initial is 1300 bytes (client max_datagram_size=1300) -> budget 3900.
The server (max_datagram_size 1200, certificate with chain) answers with
1200 + 1200 + 1152 bytes, leaving 348 bytes of budget for the PTO probe.
Every server reply is lost; the server retransmits on PTO.

exit 1 + offending sizes if a short datagram with an ack-eliciting Initial is
emitted by the server, exit 0 otherwise.
"""
import sys

from aioquic.buffer import Buffer
from aioquic.quic.configuration import QuicConfiguration
from aioquic.quic.connection import QuicConnection
from aioquic.quic.crypto import CryptoPair
from aioquic.quic.packet import QuicPacketType, pull_ack_frame, pull_quic_header

CERT, KEY, CA = (
    "/repo/tests/ssl_cert_with_chain.pem",  # leaf + intermediate: 3552-byte first flight
    "/repo/tests/ssl_key.pem",
    "/repo/tests/pycacert.pem",
)
CLIENT_ADDR, SERVER_ADDR = ("1.2.3.4", 1234), ("2.3.4.5", 4433)


def initial_packets(datagram, odcid, from_client):
    """Yield (packet_length, ack_eliciting) for each Initial packet in `datagram`,
    decrypting with the publicly derivable Initial keys."""
    buf = Buffer(data=datagram)
    while not buf.eof():
        start = buf.tell()
        try:
            header = pull_quic_header(buf, host_cid_length=8)
        except ValueError:
            return  # trailing padding bytes
        end = start + header.packet_length
        if header.packet_type == QuicPacketType.INITIAL:
            crypto = CryptoPair()
            crypto.setup_initial(odcid, is_client=not from_client, version=header.version)
            _, payload, _ = crypto.decrypt_packet(
                datagram[start:end], buf.tell() - start, 0
            )
            yield end - start, is_ack_eliciting(payload)
        if header.packet_type == QuicPacketType.ONE_RTT:
            return
        buf.seek(end)


def is_ack_eliciting(payload):
    buf = Buffer(data=payload)
    while not buf.eof():
        frame_type = buf.pull_uint_var()
        if frame_type == 0x00:  # PADDING
            continue
        elif frame_type in (0x02, 0x03):  # ACK
            pull_ack_frame(buf)
            if frame_type == 0x03:
                [buf.pull_uint_var() for _ in range(3)]
        elif frame_type in (0x1C, 0x1D):  # CONNECTION_CLOSE
            return False
        else:  # PING, CRYPTO, ...
            return True
    return False


def main():
    client_conf = QuicConfiguration(is_client=True, max_datagram_size=1300)
    client_conf.load_verify_locations(cafile=CA)
    client = QuicConnection(configuration=client_conf)

    server_conf = QuicConfiguration(is_client=False, max_datagram_size=1200)
    server_conf.load_cert_chain(CERT, KEY)
    odcid = client.original_destination_connection_id
    server = QuicConnection(
        configuration=server_conf, original_destination_connection_id=odcid
    )

    now = 0.0
    client.connect(SERVER_ADDR, now=now)
    received = 0
    for data, _ in client.datagrams_to_send(now=now):
        now += 0.01
        server.receive_datagram(data, CLIENT_ADDR, now=now)
        received += len(data)

    sent = 0
    offending = []
    # every server datagram is lost; let the server run on its timers
    for _ in range(12):
        for data, _ in server.datagrams_to_send(now=now):
            sent += len(data)
            info = list(initial_packets(data, odcid, from_client=False))
            print(
                "t=%.3f server datagram %4d bytes, initial packets %s, sent %d / budget %d"
                % (now, len(data), info, sent, 3 * received)
            )
            if any(ae for _, ae in info) and len(data) < 1200:
                offending.append(len(data))
        timer = server.get_timer()
        if timer is None:
            break
        now = timer
        server.handle_timer(now=now)

    if offending:
        print(
            "VIOLATION: server datagrams with an ack-eliciting Initial packet "
            "shorter than 1200 bytes:",
            offending,
        )
        return 1
    print("no violation observed")
    return 0


if __name__ == "__main__":
    sys.exit(main())
