"""C08: a client that receives a Retry (or an incompatible Version Negotiation) re-initialises its packet
number spaces; the Initial packet already in flight vanished from the tracked packets without being
reported to the congestion controller, so its bytes stayed in bytes_in_flight for the rest of the
connection.  Exit 0 = ledger equals the tracked in-flight packets after the handshake, 1 = it does not."""
import sys

from aioquic.quic.configuration import QuicConfiguration
from aioquic.quic.connection import QuicConnection
from aioquic.quic.packet import encode_quic_retry, pull_quic_header
from aioquic.buffer import Buffer
from aioquic.quic.retry import QuicRetryTokenHandler

CLIENT, SERVER = ("192.0.2.1", 1111), ("192.0.2.2", 4433)


def ledger(c):
    tracked = sum(p.sent_bytes for s in c._loss.spaces for p in s.sent_packets.values() if p.in_flight)
    return c._loss.bytes_in_flight, tracked


ccfg = QuicConfiguration(is_client=True)
ccfg.load_verify_locations("/repo/tests/pycacert.pem")
ccfg.server_name = "localhost"
client = QuicConnection(configuration=ccfg)
client.connect(SERVER, now=0.0)
first = client.datagrams_to_send(now=0.0)
hdr = pull_quic_header(Buffer(data=first[0][0]), host_cid_length=8)

# the server answers with a Retry
handler = QuicRetryTokenHandler()
new_cid = b"\x55" * 8
token = handler.create_token(CLIENT, hdr.destination_cid, new_cid)
retry = encode_quic_retry(version=hdr.version, source_cid=new_cid, destination_cid=hdr.source_cid, original_destination_cid=hdr.destination_cid, retry_token=token)
client.receive_datagram(retry, SERVER, now=0.01)
second = client.datagrams_to_send(now=0.01)
assert second, "client did not retry"

scfg = QuicConfiguration(is_client=False)
scfg.load_cert_chain("/repo/tests/ssl_cert.pem", "/repo/tests/ssl_key.pem")
server = QuicConnection(configuration=scfg, original_destination_connection_id=hdr.destination_cid, retry_source_connection_id=new_cid)
now = 0.02
flight = second
for _ in range(10):
    for d, a in flight:
        server.receive_datagram(d, CLIENT, now=now)
    back = server.datagrams_to_send(now=now)
    now += 0.01
    for d, a in back:
        client.receive_datagram(d, SERVER, now=now)
    flight = client.datagrams_to_send(now=now)
    now += 0.01
    if not flight and not back:
        break
assert client._handshake_complete, "handshake did not complete"
counted, tracked = ledger(client)
print("bytes_in_flight", counted, "tracked in-flight bytes", tracked)
if counted != tracked:
    print("ledger mismatch: the Initial sent before the Retry is still counted")
    sys.exit(1)
print("OK")
