"""max_datagram_size > 1500 (permitted: only a lower bound is asserted): once a single packet grows
beyond the 1500-byte scratch buffers of the C helpers, AEAD.encrypt / HeaderProtection.apply reject it
with CryptoError, which escapes datagrams_to_send() (before the C04 fixes: silent memory corruption)."""
import sys, time
sys.path.insert(0, "/repo")
from tests.test_connection import client_and_server
with client_and_server(client_options={"max_datagram_size": 1600}, server_options={"max_datagram_size": 1600}) as (client, server):
    sid = client.get_next_available_stream_id()
    client.send_stream_data(sid, b"x" * 5000, end_stream=True)
    try:
        out = client.datagrams_to_send(now=time.time())
        print("OK", [len(d) for d, _ in out])
    except Exception as exc:
        print("DEFECT datagrams_to_send raised", type(exc).__name__, exc); sys.exit(1)
