from aioquic import tls
from aioquic.buffer import Buffer
from aioquic.quic.configuration import QuicConfiguration
from aioquic.tls import Context

def bufs():
    return {e: Buffer(capacity=8192) for e in (tls.Epoch.INITIAL, tls.Epoch.HANDSHAKE, tls.Epoch.ONE_RTT)}

for alg in (tls.SignatureAlgorithm.ECDSA_SECP256R1_SHA256, tls.SignatureAlgorithm.ED25519):
    client = Context(is_client=True, cafile="/repo/tests/pycacert.pem")
    client.handshake_extensions = []
    cfg = QuicConfiguration(is_client=False)
    cfg.load_cert_chain("/repo/tests/ssl_cert.pem", "/repo/tests/ssl_key.pem")
    server = Context(is_client=False)
    server.certificate = cfg.certificate
    server.certificate_private_key = cfg.private_key
    server.handshake_extensions = []
    cb = bufs(); client.handle_message(b"", cb)
    sb = bufs(); server.handle_message(cb[tls.Epoch.INITIAL].data, sb)
    data = sb[tls.Epoch.INITIAL].data + sb[tls.Epoch.HANDSHAKE].data
    # find CertificateVerify message and patch its algorithm
    out = b""; pos = 0
    while pos < len(data):
        t = data[pos]; l = int.from_bytes(data[pos+1:pos+4], "big")
        msg = data[pos:pos+4+l]
        if t == tls.HandshakeType.CERTIFICATE_VERIFY:
            msg = msg[:4] + int(alg).to_bytes(2, "big") + msg[6:]
        out += msg; pos += 4 + l
    cb = bufs()
    try:
        client.handle_message(out, cb)
        print(alg, "no exception")
    except tls.Alert as e:
        print(alg, "alert", type(e).__name__)
    except Exception as e:
        print(alg, "ESCAPE", type(e).__name__, e)
