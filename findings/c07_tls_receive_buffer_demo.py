#!/usr/bin/env python
"""
Demo: tls.Context._receive_buffer holds an incomplete handshake message whose
24-bit length is chosen by the peer (up to 16 MiB); connection.py bounds only the
*out-of-order* CRYPTO bytes (MAX_PENDING_CRYPTO = 512 KiB), so in-order CRYPTO data
is retained far beyond the documented bound without the connection being closed.

Scenario A (victim = server, pre-handshake): an unauthenticated client sends Initial
  packets (keys derived from the DCID) carrying a "ClientHello" of length 0xFFFFFF.
Scenario B (victim = client, post-handshake): the server streams a NewSessionTicket
  (type 4) of declared length 0xFFFFFF on the 1-RTT CRYPTO stream.

Exit 1 = buffer exceeds MAX_PENDING_CRYPTO unchecked (defect present); exit 0 = bounded.
"""
import logging
import sys

from aioquic import tls
from aioquic.quic.configuration import QuicConfiguration
from aioquic.quic.connection import MAX_PENDING_CRYPTO, QuicConnection
from aioquic.quic.crypto import CryptoPair
from aioquic.quic.packet import QuicFrameType, QuicPacketType, QuicProtocolVersion
from aioquic.quic.packet_builder import QuicPacketBuilder

CERTS = "/repo/tests/"
CLIENT_ADDR = ("1.2.3.4", 1234)
SERVER_ADDR = ("2.3.4.5", 4433)
CHUNK = 1000  # CRYPTO bytes per packet
CHECKPOINTS = [10, 100, 1000, 3200]  # packets; 3200 * 1000 B ~= 3 MiB (cost is quadratic)
V1 = QuicProtocolVersion.VERSION_1
logging.getLogger("quic").setLevel(logging.ERROR)  # keep output deterministic (random CIDs)


def server_conn(odcid):
    conf = QuicConfiguration(is_client=False)
    conf.load_cert_chain(CERTS + "ssl_cert.pem", CERTS + "ssl_key.pem")
    return QuicConnection(configuration=conf, original_destination_connection_id=odcid)


def crypto_datagram(builder, packet_type, crypto, offset, data):
    builder.start_packet(packet_type, crypto)
    buf = builder.start_frame(QuicFrameType.CRYPTO, capacity=len(data) + 16)
    buf.push_uint_var(offset)
    buf.push_uint_var(len(data))
    buf.push_bytes(data)
    datagrams, _ = builder.flush()
    assert len(datagrams) == 1
    return datagrams[0]


def flood(name, victim, builder, packet_type, crypto, from_addr, msg_type, now):
    """Stream one handshake message of declared length 0xFFFFFF, strictly in order."""
    offset, results = 0, {}
    for i in range(1, max(CHECKPOINTS) + 1):
        data = (bytes([msg_type]) + b"\xff\xff\xff" if i == 1 else b"") + bytes(CHUNK)
        now += 0.0001
        victim.receive_datagram(
            crypto_datagram(builder, packet_type, crypto, offset, data), from_addr, now=now)
        victim.datagrams_to_send(now=now)  # victim's ACKs are simply ignored
        offset += len(data)
        if i in CHECKPOINTS:
            results[i] = len(victim.tls._receive_buffer)
            print("[%s] N=%5d packets (%8d CRYPTO bytes sent in order): "
                  "len(victim.tls._receive_buffer) = %8d  state=%s close_event=%s"
                  % (name, i, offset, results[i], victim._state.name, victim._close_event))
    alive = victim._close_event is None and not victim._close_pending
    return results, alive, offset, now


def control(name, victim, builder, packet_type, crypto, from_addr, offset, now):
    """The documented bound *is* enforced for a frame that skips ahead."""
    dgram = crypto_datagram(builder, packet_type, crypto, offset + MAX_PENDING_CRYPTO, b"x")
    victim.receive_datagram(dgram, from_addr, now=now + 0.001)
    print("[%s] control: one out-of-order frame at +%d -> close_event=%s"
          % (name, MAX_PENDING_CRYPTO, victim._close_event))


def scenario_a(now):
    dcid, scid = bytes(range(8)), bytes(range(8, 16))
    victim = server_conn(dcid)
    crypto = CryptoPair()
    crypto.setup_initial(cid=dcid, is_client=True, version=V1)
    builder = QuicPacketBuilder(host_cid=scid, peer_cid=dcid, version=V1, is_client=True,
                                max_datagram_size=1200)
    args = ("A server/Initial", victim, builder, QuicPacketType.INITIAL, crypto, CLIENT_ADDR)
    results, alive, offset, now = flood(*args, tls.HandshakeType.CLIENT_HELLO, now)
    control(*args, offset, now)
    return results, alive


def scenario_b(now):
    cconf = QuicConfiguration(is_client=True)
    cconf.load_verify_locations(cafile=CERTS + "pycacert.pem")
    victim = QuicConnection(configuration=cconf)
    server = server_conn(victim.original_destination_connection_id)
    victim.connect(SERVER_ADDR, now=now)
    for _ in range(4):
        now += 0.001
        for data, _a in victim.datagrams_to_send(now=now):
            server.receive_datagram(data, CLIENT_ADDR, now=now)
        for data, _a in server.datagrams_to_send(now=now):
            victim.receive_datagram(data, SERVER_ADDR, now=now)
    assert victim._handshake_complete and server._handshake_complete
    assert victim._crypto_streams[tls.Epoch.ONE_RTT].receiver.starting_offset() == 0
    builder = QuicPacketBuilder(host_cid=server.host_cid, peer_cid=server._peer_cid.cid,
                                version=server._version, is_client=False,
                                max_datagram_size=1200, packet_number=server._packet_number + 10)
    args = ("B client/1-RTT ", victim, builder, QuicPacketType.ONE_RTT,
            server._cryptos[tls.Epoch.ONE_RTT], SERVER_ADDR)
    results, alive, offset, now = flood(*args, tls.HandshakeType.NEW_SESSION_TICKET, now)
    control(*args, offset, now)
    return results, alive


def main():
    print("MAX_PENDING_CRYPTO (documented reassembly bound) = %d bytes" % MAX_PENDING_CRYPTO)
    bad = False
    for scenario in (scenario_a, scenario_b):
        results, alive = scenario(1000.0)
        peak = results[max(CHECKPOINTS)]
        print("    peak retained = %d bytes = %.1fx the bound; connection still open during flood: %s"
              % (peak, peak / MAX_PENDING_CRYPTO, alive))
        bad |= alive and peak > MAX_PENDING_CRYPTO
    if bad:
        print("FAIL: in-order CRYPTO data is buffered in tls._receive_buffer beyond MAX_PENDING_CRYPTO")
        return 1
    print("OK: retained handshake bytes stay within MAX_PENDING_CRYPTO")
    return 0


if __name__ == "__main__":
    sys.exit(main())
