"""
C16 demo (b): a request whose HEADERS block waits for QPACK dynamic table
entries (blocked stream) and turns out to be malformed once the entries arrive
must close the connection with QPACK_DECOMPRESSION_FAILED; feeding the peer's
bytes to H3Connection.handle_event() must never raise, and the closing packet
must still be emitted.
"""
import sys
import traceback

from aioquic.buffer import encode_uint_var
from aioquic.h3.connection import (
    H3_ALPN,
    ErrorCode,
    FrameType,
    H3Connection,
    Setting,
    StreamType,
    encode_frame,
    encode_settings,
)
from aioquic.quic.configuration import QuicConfiguration
from aioquic.quic.connection import QuicConnection
from aioquic.quic.events import ConnectionTerminated
from aioquic.quic.logger import QuicLogger

TESTS = "/repo/tests/"
CLIENT_ADDR = ("1.2.3.4", 1234)
SERVER_ADDR = ("2.3.4.5", 4433)
clock = [1000.0]


def now():
    clock[0] += 0.001
    return clock[0]


def transfer(sender, receiver):
    from_addr = CLIENT_ADDR if sender.configuration.is_client else SERVER_ADDR
    n = 0
    for data, _ in sender.datagrams_to_send(now=now()):
        receiver.receive_datagram(data, from_addr, now=now())
        n += 1
    return n


def make_pair():
    cc = QuicConfiguration(is_client=True, alpn_protocols=H3_ALPN, quic_logger=QuicLogger())
    cc.load_verify_locations(cafile=TESTS + "pycacert.pem")
    client = QuicConnection(configuration=cc)
    client._ack_delay = 0
    sc = QuicConfiguration(is_client=False, alpn_protocols=H3_ALPN, quic_logger=QuicLogger())
    sc.load_cert_chain(TESTS + "ssl_cert.pem", TESTS + "ssl_key.pem")
    server = QuicConnection(
        configuration=sc,
        original_destination_connection_id=client.original_destination_connection_id,
    )
    server._ack_delay = 0
    client.connect(SERVER_ADDR, now=now())
    for _ in range(4):
        transfer(client, server)
        transfer(server, client)
    return client, server


escaped = []


def pump(quic, h3):
    """Feed all pending transport events to the HTTP/3 layer."""
    out = []
    while True:
        event = quic.next_event()
        if event is None:
            return out
        try:
            out.extend(h3.handle_event(event))
        except Exception as exc:  # the property says this never happens
            traceback.print_exc()
            escaped.append(exc)


def drain(quic):
    events = []
    while True:
        event = quic.next_event()
        if event is None:
            return events
        events.append(event)


client, server = make_pair()
drain(client); drain(server)
from aioquic.h3.connection import *
import pylsqpack
enc = pylsqpack.Encoder()
_, block = enc.encode(0, [(b":method", b"GET"), (b":scheme", b"https"), (b":authority", b"x"), (b":path", b"/")])
frame = encode_frame(FrameType.HEADERS, block)
client.send_stream_data(0, frame[:1])
transfer(client, server)
h3_server = H3Connection(server)
print(pump(server, h3_server))
transfer(server, client)
print([type(e).__name__ for e in drain(client)])
client.send_stream_data(0, frame[1:], end_stream=True)
client.stop_stream(11, 0)
transfer(client, server)
print(pump(server, h3_server))
print("escaped:", escaped, "close:", server._close_event)
