"""Demonstrates the C04 defects repaired by the fix: commits (run against a pre-fix build:
   PYTHONPATH=<pre-fix worktree>/src python c04_demo.py  -> prints DEFECT lines;
   against the repaired tree it prints only OK lines)."""
import subprocess, sys

from aioquic._crypto import AEAD, CryptoError, HeaderProtection

bad = 0
# 1. AEAD_encrypt: a 1500-byte payload makes the 16-byte tag land on self->key
a = AEAD(b"aes-128-gcm", bytes(16), bytes(12))
ref = AEAD(b"aes-128-gcm", bytes(16), bytes(12)).encrypt(b"x" * 100, b"hdr", 1)
try:
    a.encrypt(bytes(1500), b"hdr", 0)
    if a.encrypt(b"x" * 100, b"hdr", 1) != ref:
        print("DEFECT AEAD_encrypt(1500 bytes) overwrote the object's own key")
        bad += 1
except CryptoError:
    print("OK AEAD_encrypt rejects payloads that leave no room for the tag")
# 2. HeaderProtection_apply: unbounded copy into buffer[1500] (run in a child: it may crash)
code = (
    "from aioquic._crypto import HeaderProtection, CryptoError\n"
    "hp = HeaderProtection(b'aes-128-ecb', bytes(16))\n"
    "try:\n hp.apply(bytes([0xc3]) + bytes(20), bytes(4000)); print('NOERR')\n"
    "except CryptoError: print('REJECTED')\n"
)
r = subprocess.run([sys.executable, "-c", code], capture_output=True, text=True)
if "REJECTED" in r.stdout:
    print("OK HeaderProtection.apply rejects oversized packets")
else:
    print("DEFECT HeaderProtection.apply copied 4021 bytes into a 1500-byte buffer (exit %d)" % r.returncode)
    bad += 1
# 3. HeaderProtection_remove: sample read past a short packet
hp = HeaderProtection(b"aes-128-ecb", bytes(16))
try:
    hp.remove(bytes(10), 7)
    print("DEFECT HeaderProtection.remove read a 16-byte sample past a 10-byte packet")
    bad += 1
except CryptoError:
    print("OK HeaderProtection.remove rejects packets too short for a sample")
# 4. Buffer(capacity=-5) / failed allocation
code = "from aioquic.buffer import Buffer\ntry:\n b=Buffer(capacity=-5)\nexcept ValueError: print('REJECTED')\nelse: b.push_uint8(1)\n"
r = subprocess.run([sys.executable, "-c", code], capture_output=True, text=True)
if "REJECTED" in r.stdout:
    print("OK Buffer rejects a negative capacity")
else:
    print("DEFECT Buffer(capacity=-5).push_uint8(1) -> exit %d (write through NULL)" % r.returncode)
    bad += 1
code = "from aioquic.buffer import Buffer\ntry:\n b=Buffer(capacity=2**62)\nexcept MemoryError: print('REJECTED')\nelse: b.push_uint8(1)\n"
r = subprocess.run([sys.executable, "-c", code], capture_output=True, text=True)
if "REJECTED" in r.stdout:
    print("OK Buffer reports a failed allocation")
else:
    print("DEFECT Buffer(capacity=2**62).push_uint8(1) -> exit %d (malloc result unchecked)" % r.returncode)
    bad += 1
sys.exit(1 if bad else 0)
