#!/venv/bin/python
"""
D. src/aioquic/_crypto.c HeaderProtection_remove() returns the truncated packet
   number (uint32_t) through Py_BuildValue format "i" (signed int).

Part 1 (primitives): a CryptoPair with fixed secrets protects hand-assembled
  short-header packets that use the 4-byte packet number encoding; the peer
  CryptoPair removes the protection.  For several full packet numbers we print
  what HeaderProtection.remove() returns and whether decrypt_packet() recovers
  the packet (expected packet number = pn, i.e. the most favourable case).

Part 2 (connection): real client/server pair, handshake through the public
  API.  Then a peer that is legitimate under RFC 9000 (packet numbers only have
  to increase, section 12.3; the 4-byte encoding is valid whenever fewer than
  2^31 packet numbers are unacknowledged, section 17.1 / appendix A.2) sends
  1-RTT PING packets with packet numbers 0x40000000, 0x80000000, 0xC0000000,
  0x100000000, 0x140000000, 0x180000000, 0x180000001, each 4-byte encoded, each
  after the previous one was received (so each is within 2^30 of the number the
  server expects, well inside the 2^31 decoding window).  The packets are
  protected with the client's real keys using aioquic's
  CryptoPair.encrypt_packet(); only the 4-byte header is assembled by hand
  because QuicPacketBuilder always emits 2-byte numbers.
  The server's own qlog tells which packets it accepted or dropped.

Exit 1 if any genuine packet is rejected or decoded to a wrong packet number,
exit 0 otherwise.
"""
import sys

from aioquic import tls
from aioquic.buffer import Buffer
from aioquic.quic import events
from aioquic.quic.configuration import QuicConfiguration
from aioquic.quic.connection import QuicConnection
from aioquic.quic.crypto import CryptoError, CryptoPair
from aioquic.quic.logger import QuicLogger
from aioquic.quic.packet import QuicProtocolVersion, decode_packet_number
from aioquic.tls import CipherSuite

CLIENT_ADDR = ("1.2.3.4", 1234)
SERVER_ADDR = ("2.3.4.5", 4433)
CERT = "/repo/tests/ssl_cert.pem"
KEY = "/repo/tests/ssl_key.pem"
CA = "/repo/tests/pycacert.pem"

PACKET_FIXED_BIT = 0x40


def short_header_packet(crypto, dcid, packet_number, payload, spin_bit=False):
    """
    A 1-RTT packet with a 4-byte packet number, protected by `crypto`
    (a CryptoPair) exactly as QuicPacketBuilder._end_packet does, except for the
    packet number length.
    """
    buf = Buffer(capacity=64)
    buf.push_uint8(
        PACKET_FIXED_BIT | (int(spin_bit) << 5) | (crypto.key_phase << 2) | (4 - 1)
    )
    buf.push_bytes(dcid)
    buf.push_uint32(packet_number & 0xFFFFFFFF)
    plain_header = buf.data
    return crypto.encrypt_packet(plain_header, payload, packet_number)


# --------------------------------------------------------------------------
# Part 1
# --------------------------------------------------------------------------
def part1():
    print("--- part 1: CryptoPair / HeaderProtection primitives")
    secret = bytes(range(32))
    sender = CryptoPair()
    receiver = CryptoPair()
    for pair in (sender, receiver):
        for ctx in (pair.send, pair.recv):
            ctx.setup(
                cipher_suite=CipherSuite.AES_128_GCM_SHA256,
                secret=secret,
                version=QuicProtocolVersion.VERSION_1,
            )
    dcid = bytes(8)
    payload = b"\x01" + bytes(20)  # PING + PADDING
    ok = True
    print(
        "  %-12s %-12s %-14s %-22s %s"
        % ("full pn", "truncated", "hp.remove()", "decode_packet_number", "decrypt")
    )
    for pn in (
        0x7FFFFFFF,  # control: top bit of the truncated number clear
        0x80000001,  # top bit set, pn < 2^32
        0xFFFFFFFF,
        0x140000000,  # control: pn >= 2^32, top bit of truncated clear
        0x180000001,  # pn >= 2^32, top bit of truncated set
        0x2F0000000,
    ):
        packet = short_header_packet(sender, dcid, pn, payload)
        _, raw = receiver.recv.hp.remove(packet, 1 + len(dcid))
        decoded = decode_packet_number(raw, 32, pn)
        try:
            _, plain, got_pn = receiver.decrypt_packet(packet, 1 + len(dcid), pn)
            result = "ok pn=0x%x" % got_pn
            good = got_pn == pn and plain == payload
        except CryptoError as exc:
            result = "REJECTED (CryptoError: %s)" % exc
            good = False
        flags = []
        if raw != pn & 0xFFFFFFFF:
            flags.append("hp.remove() value is wrong (negative)")
        if not good:
            flags.append("genuine packet not recovered")
            ok = False
        print(
            "  0x%-10x 0x%-10x %-14d 0x%-20x %s%s"
            % (
                pn,
                pn & 0xFFFFFFFF,
                raw,
                decoded,
                result,
                ("   <-- " + "; ".join(flags)) if flags else "",
            )
        )
    return ok


# --------------------------------------------------------------------------
# Part 2
# --------------------------------------------------------------------------
def qlog_packets(logger):
    received, dropped = [], []
    for trace in logger.to_dict()["traces"]:
        for ev in trace["events"]:
            if ev["name"] == "transport:packet_received":
                received.append(ev["data"]["header"]["packet_number"])
            elif ev["name"] == "transport:packet_dropped":
                dropped.append(ev["data"]["trigger"])
    return received, dropped


def part2():
    print("--- part 2: real connection, peer skipping packet numbers, 4-byte encoding")
    now = 1000.0
    server_logger = QuicLogger()
    ccfg = QuicConfiguration(is_client=True)
    ccfg.load_verify_locations(cafile=CA)
    scfg = QuicConfiguration(is_client=False, quic_logger=server_logger)
    scfg.load_cert_chain(CERT, KEY)
    client = QuicConnection(configuration=ccfg)
    server = QuicConnection(
        configuration=scfg,
        original_destination_connection_id=client.original_destination_connection_id,
    )

    def pump():
        nonlocal now
        for _ in range(10):
            n = 0
            now += 0.05
            for data, _a in client.datagrams_to_send(now=now):
                server.receive_datagram(data, CLIENT_ADDR, now=now)
                n += 1
            now += 0.05
            for data, _a in server.datagrams_to_send(now=now):
                client.receive_datagram(data, SERVER_ADDR, now=now)
                n += 1
            if not n:
                break

    client.connect(SERVER_ADDR, now=now)
    pump()
    done = False
    while True:
        ev = server.next_event()
        if ev is None:
            break
        done = done or isinstance(ev, events.HandshakeCompleted)
    if not done:
        print("SETUP FAILURE: handshake did not complete")
        sys.exit(2)
    client.send_stream_data(0, b"hello")
    pump()

    crypto = client._cryptos[tls.Epoch.ONE_RTT]
    dcid = client._peer_cid.cid
    ok = True
    for pn in (
        0x40000000,
        0x80000000,
        0xC0000000,
        0x100000000,
        0x140000000,
        0x180000000,
        0x180000001,
    ):
        before_rx, before_drop = qlog_packets(server_logger)
        packet = short_header_packet(
            crypto, dcid, pn, b"\x01" + bytes(20), spin_bit=client._spin_bit
        )
        now += 0.05
        server.receive_datagram(packet, CLIENT_ADDR, now=now)
        after_rx, after_drop = qlog_packets(server_logger)
        new_rx = after_rx[len(before_rx) :]
        new_drop = after_drop[len(before_drop) :]
        if new_rx == [pn] and not new_drop:
            verdict = "accepted"
        else:
            verdict = "NOT ACCEPTED: received=%s dropped=%s" % (
                [hex(x) for x in new_rx],
                new_drop,
            )
            ok = False
        print(
            "  pn=0x%-10x truncated=0x%08x  server: %s"
            % (pn, pn & 0xFFFFFFFF, verdict)
        )
        # let the server acknowledge (the skipping peer is entitled to the
        # 4-byte encoding as long as < 2^31 numbers are unacknowledged)
        now += 0.05
        server.datagrams_to_send(now=now)
    while True:
        ev = server.next_event()
        if ev is None:
            break
        if isinstance(ev, events.ConnectionTerminated):
            print("  server terminated: %r" % (ev,))
            ok = False
    return ok


def main():
    ok1 = part1()
    ok2 = part2()
    if ok1 and ok2:
        print("OK: all genuine packets were accepted")
        return 0
    print(
        "DEFECT: HeaderProtection.remove() hands back a NEGATIVE truncated packet "
        "number when a 4-byte packet number has its top bit set; "
        "decode_packet_number() then ORs it into the candidate, which wipes the "
        "bits above 2^32 of the expected packet number: the packet is recovered "
        "only when the full packet number is below 2^32 and is rejected "
        "(AEAD nonce mismatch) above."
    )
    return 1


if __name__ == "__main__":
    sys.exit(main())
