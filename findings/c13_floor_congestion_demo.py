#!/usr/bin/env python
"""
Client datagrams containing an Initial packet must be at least 1200 bytes.

A client resumes a session and writes a lot of 0-RTT data right after
connect(), which fills its congestion window.  No datagram is lost, dropped,
reordered or duplicated.  When the server's Initial (ServerHello) arrives the
client has to acknowledge it in an Initial packet; the padding target of that
datagram is bounded by the congestion budget (cwnd - bytes in flight).

exit 1 + offending sizes if a client datagram containing an Initial packet is
shorter than 1200 bytes, exit 0 otherwise.
"""
import sys

from aioquic.buffer import Buffer
from aioquic.quic.configuration import QuicConfiguration
from aioquic.quic.connection import QuicConnection
from aioquic.quic.packet import QuicPacketType, pull_quic_header

CERT, KEY, CA = (
    "/repo/tests/ssl_cert.pem",
    "/repo/tests/ssl_key.pem",
    "/repo/tests/pycacert.pem",
)
CLIENT_ADDR, SERVER_ADDR = ("1.2.3.4", 1234), ("2.3.4.5", 4433)
ONE_WAY_DELAY = 0.02


def packet_types(datagram):
    types = []
    buf = Buffer(data=datagram)
    while not buf.eof():
        start = buf.tell()
        try:
            header = pull_quic_header(buf, host_cid_length=8)
        except ValueError:
            break  # trailing padding
        types.append(header.packet_type)
        if header.packet_type == QuicPacketType.ONE_RTT:
            break
        buf.seek(start + header.packet_length)
    return types


class Net:
    """Lossless, in-order virtual network with a virtual clock."""

    def __init__(self):
        self.now = 0.0
        self.offending = []

    def transfer(self, sender, receiver, sender_is_client):
        name = "client" if sender_is_client else "server"
        datagrams = sender.datagrams_to_send(now=self.now)
        for data, _ in datagrams:
            types = packet_types(data)
            flag = ""
            if sender_is_client and QuicPacketType.INITIAL in types and len(data) < 1200:
                self.offending.append(len(data))
                flag = "  <-- Initial in a datagram < 1200 bytes"
            if sender_is_client and (QuicPacketType.INITIAL in types or flag):
                cwnd = sender._loss.congestion_window
                inflight = sender._loss.bytes_in_flight
                print(
                    "t=%.3f %s datagram %4d bytes %s (cwnd %d, in flight %d after send)%s"
                    % (self.now, name, len(data), [t.name for t in types], cwnd, inflight, flag)
                )
        self.now += ONE_WAY_DELAY
        for data, _ in datagrams:
            receiver.receive_datagram(
                data, CLIENT_ADDR if sender_is_client else SERVER_ADDR, now=self.now
            )
        return len(datagrams)

    def run(self, client, server, rounds):
        for _ in range(rounds):
            a = self.transfer(client, server, True)
            b = self.transfer(server, client, False)
            if not a and not b:
                break


def make_pair(client_kwargs, server_kwargs, session_ticket=None):
    client_conf = QuicConfiguration(is_client=True, session_ticket=session_ticket)
    client_conf.load_verify_locations(cafile=CA)
    client = QuicConnection(configuration=client_conf, **client_kwargs)
    server_conf = QuicConfiguration(is_client=False)
    server_conf.load_cert_chain(CERT, KEY)
    server = QuicConnection(
        configuration=server_conf,
        original_destination_connection_id=client.original_destination_connection_id,
        **server_kwargs,
    )
    return client, server


def main():
    tickets_client, tickets_server = [], {}

    # 1. full handshake to obtain a session ticket
    net = Net()
    client, server = make_pair(
        {"session_ticket_handler": tickets_client.append},
        {"session_ticket_handler": lambda t: tickets_server.__setitem__(t.ticket, t)},
    )
    client.connect(SERVER_ADDR, now=net.now)
    net.run(client, server, 6)
    assert tickets_client, "no session ticket received"
    assert not net.offending
    print("--- session ticket obtained, resuming with 0-RTT ---")

    # 2. resumed connection, 0-RTT data written right after connect()
    net = Net()
    client, server = make_pair(
        {},
        {"session_ticket_fetcher": lambda label: tickets_server.pop(label, None)},
        session_ticket=tickets_client[0],
    )
    client.connect(SERVER_ADDR, now=net.now)
    stream_id = client.get_next_available_stream_id()
    client.send_stream_data(stream_id, bytes(200000), end_stream=True)
    net.run(client, server, 6)

    if net.offending:
        print(
            "VIOLATION: client datagrams containing an Initial packet shorter "
            "than 1200 bytes:",
            net.offending,
        )
        return 1
    print("no violation observed")
    return 0


if __name__ == "__main__":
    sys.exit(main())
