"""A peer that sends STOP_SENDING for one of our HTTP/3 critical streams (control / QPACK) resets that
stream's send half; the next header block makes H3Connection.handle_event raise AssertionError
('cannot call write() after reset()') from QuicStreamSender.write."""
import sys, time
sys.path.insert(0, "/repo")
from tests.test_connection import client_and_server, transfer
from aioquic.h3.connection import H3_ALPN, H3Connection
with client_and_server(client_options={"alpn_protocols": H3_ALPN}, server_options={"alpn_protocols": H3_ALPN}) as (qc, qs):
    h3c, h3s = H3Connection(qc), H3Connection(qs)
    transfer(qc, qs); transfer(qs, qc)
    def pump(q, h3):
        out = []
        ev = q.next_event()
        while ev is not None:
            out += h3.handle_event(ev); ev = q.next_event()
        return out
    pump(qs, h3s); pump(qc, h3c)
    # hostile client: ask the server to stop sending on the server's QPACK decoder stream
    qc.stop_stream(h3s._local_decoder_stream_id, 0)
    sid = qc.get_next_available_stream_id()
    h3c.send_headers(sid, [(b":method", b"GET"), (b":scheme", b"https"), (b":authority", b"x"), (b":path", b"/"), (b"x-custom", b"some-value-to-insert")], end_stream=True)
    transfer(qc, qs)
    try:
        evs = pump(qs, h3s)
        print("OK handle_event returned; server close pending:", qs._close_pending, qs._close_event)
    except Exception as exc:
        print("DEFECT handle_event raised", type(exc).__name__, exc); sys.exit(1)
