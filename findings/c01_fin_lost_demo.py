#!/venv/bin/python
"""
A. A FIN-only STREAM frame is consumed from the sender and then dropped when
   QuicPacketBuilder.start_frame() raises QuicPacketBuilderStop.

Property checked: if the network eventually delivers everything, every
end-of-stream written by the application is delivered to the peer.

Public API only, unmodified connections (pacing, ack delay left as they are),
lossless in-order network, virtual clock.  Two independent scenarios:

  packet_full:
    * the client sends "hello" on a small stream (no FIN); it is delivered and
      acknowledged;
    * the application then writes a bulk body on another stream that is ahead in
      the service queue AND finishes the small stream with
      send_stream_data(small, b"", end_stream=True); one datagrams_to_send();
    * the bulk STREAM frame fills the packet to the last byte, the FIN-only
      frame of the small stream is requested next, start_frame() raises.

  cwnd_full:
    * same, but the small stream is FIRST in the service queue and the bulk
      upload has filled the congestion window (network delay grew, no ACK yet)
      when the application finishes the small stream: the FIN-only frame is the
      first frame of an empty packet and start_frame() raises for lack of
      flight (congestion) space.

  In both cases the network then delivers everything and timers fire for 30
  virtual seconds.

Exit 1 if in any scenario the server never sees end_stream on the small stream,
exit 0 otherwise.
"""
import sys

from aioquic.quic import events
from aioquic.quic.configuration import QuicConfiguration
from aioquic.quic.connection import QuicConnection

CLIENT_ADDR = ("1.2.3.4", 1234)
SERVER_ADDR = ("2.3.4.5", 4433)
CERT = "/repo/tests/ssl_cert.pem"
KEY = "/repo/tests/ssl_key.pem"
CA = "/repo/tests/pycacert.pem"


class Sim:
    """Two real QuicConnection objects, a perfect network and a virtual clock."""

    def __init__(self):
        self.now = 1000.0
        self.latency = 0.02  # one-way, seconds
        ccfg = QuicConfiguration(is_client=True)
        ccfg.load_verify_locations(cafile=CA)
        scfg = QuicConfiguration(is_client=False)
        scfg.load_cert_chain(CERT, KEY)
        self.client = QuicConnection(configuration=ccfg)
        self.server = QuicConnection(
            configuration=scfg,
            original_destination_connection_id=(
                self.client.original_destination_connection_id
            ),
        )
        self.inflight = []  # (arrival_time, seq, receiver, data, from_addr)
        self.seq = 0
        self.events = {id(self.client): [], id(self.server): []}
        self.server_started = False  # a server cannot transmit before it receives

    def flush(self, conn):
        """What the event loop does after every API call: transmit."""
        peer = self.server if conn is self.client else self.client
        addr = CLIENT_ADDR if conn is self.client else SERVER_ADDR
        n = 0
        if conn is self.server and not self.server_started:
            return 0
        for data, _ in conn.datagrams_to_send(now=self.now):
            self.seq += 1
            self.inflight.append((self.now + self.latency, self.seq, peer, data, addr))
            n += 1
        return n

    def collect(self, conn):
        while True:
            ev = conn.next_event()
            if ev is None:
                break
            self.events[id(conn)].append(ev)

    def run(self, duration):
        """Deliver datagrams and fire timers for `duration` virtual seconds."""
        end = self.now + duration
        while True:
            self.flush(self.client)
            self.flush(self.server)
            candidates = []
            if self.inflight:
                candidates.append(min(x[0] for x in self.inflight))
            for c in (self.client, self.server):
                t = c.get_timer()
                if t is not None:
                    candidates.append(t)
            if not candidates:
                break
            t = max(min(candidates), self.now)
            if t > end:
                break
            self.now = t
            due = sorted(x for x in self.inflight if x[0] <= self.now)
            self.inflight = [x for x in self.inflight if x[0] > self.now]
            for _, _, receiver, data, addr in due:
                receiver.receive_datagram(data, addr, now=self.now)
                if receiver is self.server:
                    self.server_started = True
                self.collect(receiver)
            for c in (self.client, self.server):
                t = c.get_timer()
                if t is not None and t <= self.now:
                    c.handle_timer(now=self.now)
                    self.collect(c)
        self.now = end


def scenario(name):
    print("--- scenario %s" % name)
    sim = Sim()
    client, server = sim.client, sim.server
    client.connect(SERVER_ADDR, now=sim.now)
    sim.run(1.0)
    if not any(
        isinstance(e, events.HandshakeCompleted) for e in sim.events[id(server)]
    ):
        print("SETUP FAILURE: handshake did not complete")
        sys.exit(2)

    bulk = bytes(60000)
    if name == "packet_full":
        bulk_id = client.get_next_available_stream_id()  # 0
        client.send_stream_data(bulk_id, b"")  # created first: first in queue
        small_id = client.get_next_available_stream_id()  # 4
        client.send_stream_data(small_id, b"hello")
        sim.run(1.0)  # delivered and acknowledged

        client.send_stream_data(bulk_id, bulk, end_stream=True)
        client.send_stream_data(small_id, b"", end_stream=True)
        sim.flush(client)
    else:
        small_id = client.get_next_available_stream_id()  # 0
        client.send_stream_data(small_id, b"hello")
        sim.run(1.0)  # delivered and acknowledged
        bulk_id = client.get_next_available_stream_id()  # 4

        # the path gets slower (queueing): ACKs will need 1 s to come back
        sim.latency = 0.5
        client.send_stream_data(bulk_id, bulk, end_stream=True)
        sim.run(0.1)  # the pacer lets one congestion window out, no ACK yet
        room = client._loss.congestion_window - client._loss.bytes_in_flight
        print(
            "bulk upload running: congestion_window=%d bytes_in_flight=%d room=%d"
            % (client._loss.congestion_window, client._loss.bytes_in_flight, room)
        )
        print(
            "stream service order:", [s.stream_id for s in client._streams_queue]
        )
        client.send_stream_data(small_id, b"", end_stream=True)
        sim.flush(client)

    # let everything settle: lossless network, all timers fire.
    sim.run(30.0)

    got = {bulk_id: 0, small_id: 0}
    fin = {bulk_id: False, small_id: False}
    for e in sim.events[id(server)]:
        if isinstance(e, events.StreamDataReceived):
            got[e.stream_id] += len(e.data)
            fin[e.stream_id] = fin[e.stream_id] or e.end_stream
    for c, label in ((client, "client"), (server, "server")):
        for e in sim.events[id(c)]:
            if isinstance(e, events.ConnectionTerminated):
                print(label, "terminated:", e)
    print(
        "server received: bulk stream %d: %d bytes fin=%s ; small stream %d: "
        "%d bytes fin=%s"
        % (bulk_id, got[bulk_id], fin[bulk_id], small_id, got[small_id], fin[small_id])
    )
    s = client._streams.get(small_id)
    if s is not None:
        print(
            "client small stream %d sender: _pending_eof=%s buffer_is_empty=%s "
            "_buffer_fin=%s highest_offset=%d is_finished=%s ; "
            "connection bytes_in_flight=%d"
            % (
                small_id,
                s.sender._pending_eof,
                s.sender.buffer_is_empty,
                s.sender._buffer_fin,
                s.sender.highest_offset,
                s.sender.is_finished,
                client._loss.bytes_in_flight,
            )
        )

    if got[bulk_id] != len(bulk) or not fin[bulk_id] or got[small_id] != 5:
        print("UNEXPECTED: the data itself was not fully delivered")
        return False
    if not fin[small_id]:
        print(
            "DEFECT (%s): the client wrote end_stream on stream %d, the network "
            "lost nothing, 30 s elapsed, nothing is in flight or pending, yet the "
            "server never received the end of stream %d: the FIN-only frame was "
            "taken out of the sender by get_frame() (_pending_eof cleared) and "
            "thrown away when start_frame() raised QuicPacketBuilderStop."
            % (name, small_id, small_id)
        )
        return False
    print("OK: end of stream delivered")
    return True


def main():
    results = [scenario("packet_full"), scenario("cwnd_full")]
    return 0 if all(results) else 1


if __name__ == "__main__":
    sys.exit(main())
