"""C17 finding: the declared length of a *known* TLS extension is ignored.  A ClientHello whose
supported_versions extension declares a wrong extension_length is parsed as if nothing were wrong
(the body is read by its inner length), so malformed input is accepted and re-encodes to different
bytes.  exit 0 when every corrupted length is rejected with a TLS alert."""
import sys

from aioquic import tls
from aioquic.buffer import Buffer

hello = tls.ClientHello(
    random=bytes(32), legacy_session_id=b"", cipher_suites=[tls.CipherSuite.AES_128_GCM_SHA256], legacy_compression_methods=[0],
    alpn_protocols=["h3"], key_share=[(tls.Group.SECP256R1, bytes(65))], signature_algorithms=[tls.SignatureAlgorithm.RSA_PSS_RSAE_SHA256],
    supported_groups=[tls.Group.SECP256R1], supported_versions=[tls.TLS_VERSION_1_3], server_name="example.com",
)
buf = Buffer(capacity=1000)
tls.push_client_hello(buf, hello)
good = buf.data
assert tls.pull_client_hello(Buffer(data=good)) == hello

bad = 0
# locate each extension header: type(2) length(2) inside the extensions block and corrupt its length by +-1
ext_types = {int(t): t.name for t in tls.ExtensionType}
pos = 4 + 2 + 32 + 1 + len(hello.legacy_session_id) + 2 + 2 * len(hello.cipher_suites) + 1 + len(hello.legacy_compression_methods)
ext_total = int.from_bytes(good[pos : pos + 2], "big")
p = pos + 2
while p < pos + 2 + ext_total:
    etype = int.from_bytes(good[p : p + 2], "big")
    elen = int.from_bytes(good[p + 2 : p + 4], "big")
    for delta in (-1, +1):
        if elen + delta < 0:
            continue
        data = good[: p + 2] + (elen + delta).to_bytes(2, "big") + good[p + 4 :]
        try:
            got = tls.pull_client_hello(Buffer(data=data))
            out = Buffer(capacity=1000)
            tls.push_client_hello(out, got)
            print(f"ACCEPTED extension {ext_types.get(etype, etype)} declaring length {elen + delta} instead of {elen}; re-encodes {'identically' if out.data == data else 'to different bytes'}")
            bad += 1
        except tls.Alert:
            pass
    p += 4 + elen
print("OK: every wrong extension length raised an alert" if not bad else f"{bad} malformed ClientHello messages accepted")
sys.exit(1 if bad else 0)
