"""C02 finding: QUIC v2 key update uses the v1 label.  RFC 9369 3.3.2: "The labels used in [QUIC-TLS] to derive
packet protection keys (Section 5.1), header protection keys (Section 5.4), Retry Integrity Tag keys (Section 5.8),
and key updates (Section 6.1) change from "quic key" to "quicv2 key", ..., and from "quic ku" to "quicv2 ku"".
An independent HKDF-Expand-Label with "quicv2 ku" must give the secret aioquic installs after a key update on a
version-2 connection.  exit 0 when they agree."""
import struct
import sys

from cryptography.hazmat.primitives import hashes
from cryptography.hazmat.primitives.kdf.hkdf import HKDFExpand

from aioquic.quic.crypto import CryptoContext, next_key_phase
from aioquic.quic.packet import QuicProtocolVersion
from aioquic.tls import CipherSuite


def expand_label(secret, label, length):  # RFC 8446 7.1, written independently of aioquic.tls
    full = b"tls13 " + label
    info = struct.pack("!HB", length, len(full)) + full + b"\x00"
    return HKDFExpand(hashes.SHA256(), length, info).derive(secret)


bad = 0
for version, label in ((QuicProtocolVersion.VERSION_1, b"quic ku"), (QuicProtocolVersion.VERSION_2, b"quicv2 ku")):
    ctx = CryptoContext()
    secret = bytes(range(32))
    ctx.setup(cipher_suite=CipherSuite.AES_128_GCM_SHA256, secret=secret, version=version)
    nxt = next_key_phase(ctx)
    want = expand_label(secret, label, 32)
    ok = nxt.secret == want
    print(f"version {version:#x}: next-generation secret {'matches' if ok else 'DIFFERS from'} HKDF-Expand-Label(secret, {label!r})")
    bad += not ok
sys.exit(1 if bad else 0)
