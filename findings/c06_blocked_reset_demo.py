"""C06 finding: RESET_STREAM / STOP_SENDING are emitted for a stream that is blocked by the peer's
stream-count limit (never opened on the wire): the peer sees a frame naming a stream beyond the limit it
advertised and closes the connection with STREAM_LIMIT_ERROR.  exit 0 when nothing beyond the limit is sent."""
import sys

from aioquic.quic.configuration import QuicConfiguration
from aioquic.quic.connection import QuicConnection
from aioquic.quic import events

T = "/repo/tests/"
CA, SA = ("1.2.3.4", 1234), ("2.3.4.5", 4433)


def pair():
    cc = QuicConfiguration(is_client=True)
    cc.load_verify_locations(cafile=T + "pycacert.pem")
    sc = QuicConfiguration(is_client=False)
    sc.load_cert_chain(T + "ssl_cert.pem", T + "ssl_key.pem")
    c = QuicConnection(configuration=cc)
    s = QuicConnection(configuration=sc, original_destination_connection_id=c.original_destination_connection_id)
    s._local_max_streams_bidi.value = 2  # advertise a small limit (read when transport parameters are serialised)
    now = 0.0
    c.connect(SA, now=now)
    for _ in range(4):
        for d, _a in c.datagrams_to_send(now=now):
            s.receive_datagram(d, CA, now=now)
        for d, _a in s.datagrams_to_send(now=now):
            c.receive_datagram(d, SA, now=now)
        now += 0.05
    return c, s, now


def drain(q):
    out = []
    while True:
        e = q.next_event()
        if e is None:
            return out
        out.append(e)


def run(kind):
    c, s, now = pair()
    drain(c), drain(s)
    limit = c._remote_max_streams_bidi
    ids = [c.get_next_available_stream_id() + 4 * i for i in range(limit + 1)]
    for sid in ids:
        c.send_stream_data(sid, b"x")
    over = ids[-1]  # first stream beyond the peer's limit: must stay invisible on the wire
    if kind == "reset":
        c.reset_stream(over, 7)
    else:
        c.stop_stream(over, 7)
    for _ in range(3):
        for d, _a in c.datagrams_to_send(now=now):
            s.receive_datagram(d, CA, now=now)
        for d, _a in s.datagrams_to_send(now=now):
            c.receive_datagram(d, SA, now=now)
        now += 0.05
    for q in (c, s):
        t = q.get_timer()
        if t is not None and q._close_event is not None:
            q.handle_timer(now=t)
    bad = [e for e in drain(s) + drain(c) if isinstance(e, events.ConnectionTerminated)]
    print(f"{kind}: peer limit {limit} bidirectional streams, stream {over} is over the limit ->", bad or "connection alive")
    return bool(bad)


if __name__ == "__main__":
    r = [run("reset"), run("stop")]
    sys.exit(1 if any(r) else 0)
