#!/usr/bin/env python
"""
Demo: the number of ranges in the victim's QuicPacketSpace.ack_queue grows by one
per received packet when the peer skips every second packet number and never
acknowledges the victim's ACK frames.  Nothing caps the RangeSet.

The hostile peer is the legitimate client's key material: after a real handshake,
1-RTT packets holding a PING are built with the library's QuicPacketBuilder and
the client's CryptoPair, using only even packet numbers.  Everything the server
sends back is discarded (so no ACK-of-ACK ever prunes the queue).

Exit 1 = unbounded linear growth observed (defect present); exit 0 = bounded.
"""
import sys

from aioquic import tls
from aioquic.quic.configuration import QuicConfiguration
from aioquic.quic.connection import QuicConnection, QuicConnectionState
from aioquic.quic.packet import QuicFrameType, QuicPacketType
from aioquic.quic.packet_builder import QuicPacketBuilder

CERTS = "/repo/tests/"
CLIENT_ADDR = ("1.2.3.4", 1234)
SERVER_ADDR = ("2.3.4.5", 4433)
CHECKPOINTS = [10, 100, 1000, 5000]


def transfer(sender, receiver, from_addr, now):
    for data, _ in sender.datagrams_to_send(now=now):
        receiver.receive_datagram(data, from_addr, now=now)


def handshake(now):
    cconf = QuicConfiguration(is_client=True)
    cconf.load_verify_locations(cafile=CERTS + "pycacert.pem")
    client = QuicConnection(configuration=cconf)
    sconf = QuicConfiguration(is_client=False)
    sconf.load_cert_chain(CERTS + "ssl_cert.pem", CERTS + "ssl_key.pem")
    server = QuicConnection(
        configuration=sconf,
        original_destination_connection_id=client.original_destination_connection_id,
    )
    client.connect(SERVER_ADDR, now=now)
    for _ in range(4):
        now += 0.001
        transfer(client, server, CLIENT_ADDR, now)
        now += 0.001
        transfer(server, client, SERVER_ADDR, now)
    assert client._handshake_complete and server._handshake_complete
    return client, server, now


def craft_ping(client, packet_number):
    """One 1-RTT datagram with an explicit packet number, sealed with the client's keys."""
    builder = QuicPacketBuilder(
        host_cid=client.host_cid,
        peer_cid=client._peer_cid.cid,
        version=client._version,
        is_client=True,
        max_datagram_size=1200,
        packet_number=packet_number,
    )
    builder.start_packet(QuicPacketType.ONE_RTT, client._cryptos[tls.Epoch.ONE_RTT])
    builder.start_frame(QuicFrameType.PING)
    datagrams, _ = builder.flush()
    assert len(datagrams) == 1
    return datagrams[0]


def main():
    now = 1000.0
    client, server, now = handshake(now)
    space = server._spaces[tls.Epoch.ONE_RTT]
    print("after handshake: len(ack_queue) = %d, ack_queue = %s"
          % (len(space.ack_queue), list(space.ack_queue)))

    # first even packet number safely above anything the real client used
    pn = (client._packet_number + 2) & ~1
    results = {}
    acks_discarded = 0
    for i in range(1, max(CHECKPOINTS) + 1):
        now += 0.001
        server.receive_datagram(craft_ping(client, pn), CLIENT_ADDR, now=now)
        pn += 2  # leave a one-packet hole every time
        # the victim's ACKs (and ACK-of-ACK PINGs, PTO probes) never reach the peer
        timer = server.get_timer()
        if timer is not None and timer <= now:
            server.handle_timer(now=now)
        acks_discarded += len(server.datagrams_to_send(now=now))
        if i in CHECKPOINTS:
            results[i] = len(space.ack_queue)
            print(
                "N=%5d gapped packets: len(server ack_queue) = %d ranges "
                "(server datagrams discarded: %d, state = %s)"
                % (i, results[i], acks_discarded, server._state.name)
            )

    assert server._state == QuicConnectionState.CONNECTED, "server closed the connection"
    lo, hi = CHECKPOINTS[0], CHECKPOINTS[-1]
    slope = (results[hi] - results[lo]) / (hi - lo)
    print("growth per received packet = %.3f ranges" % slope)
    if slope > 0.5 and results[hi] >= hi:
        print("FAIL: ack_queue range count grows linearly with no cap")
        return 1
    print("OK: ack_queue range count stays bounded")
    return 0


if __name__ == "__main__":
    sys.exit(main())
