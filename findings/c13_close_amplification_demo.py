#!/usr/bin/env python
"""
Anti-amplification limit versus the closing branch of datagrams_to_send().

A server receives a single 1200-byte client Initial from an address it never
validates (all server replies are lost, the client stays silent).  The server
spends its 3 x 1200 = 3600 byte budget on the handshake flight and PTO
retransmissions.  Then the application calls close().  Does the server still
emit CONNECTION_CLOSE datagrams beyond 3 x bytes received?

exit 1 + sizes if total bytes sent ever exceed 3 x total bytes received,
exit 0 otherwise.
"""
import sys

from aioquic.buffer import Buffer
from aioquic.quic.configuration import QuicConfiguration
from aioquic.quic.connection import QuicConnection
from aioquic.quic.packet import QuicPacketType, pull_quic_header

CERT, KEY, CA = (
    "/repo/tests/ssl_cert.pem",
    "/repo/tests/ssl_key.pem",
    "/repo/tests/pycacert.pem",
)
CLIENT_ADDR, SERVER_ADDR = ("1.2.3.4", 1234), ("2.3.4.5", 4433)


def packet_types(datagram):
    types = []
    buf = Buffer(data=datagram)
    while not buf.eof():
        start = buf.tell()
        try:
            header = pull_quic_header(buf, host_cid_length=8)
        except ValueError:
            break
        types.append(header.packet_type.name)
        if header.packet_type == QuicPacketType.ONE_RTT:
            break
        buf.seek(start + header.packet_length)
    return types


def main():
    client_conf = QuicConfiguration(is_client=True)
    client_conf.load_verify_locations(cafile=CA)
    client = QuicConnection(configuration=client_conf)

    server_conf = QuicConfiguration(is_client=False)
    server_conf.load_cert_chain(CERT, KEY)
    server = QuicConnection(
        configuration=server_conf,
        original_destination_connection_id=client.original_destination_connection_id,
    )

    now = 0.0
    received = 0
    sent = 0
    violations = []

    def drain(label):
        nonlocal sent
        for data, addr in server.datagrams_to_send(now=now):
            assert addr == CLIENT_ADDR
            sent += len(data)
            over = sent > 3 * received
            print(
                "t=%.3f %-6s server -> %s %4d bytes %-32s total sent %d, 3 x received %d%s"
                % (now, label, addr[0], len(data), packet_types(data), sent,
                   3 * received, "  <-- OVER BUDGET" if over else "")
            )
            if over:
                violations.append((len(data), sent, 3 * received))

    # the only datagram the server ever receives from this address
    client.connect(SERVER_ADDR, now=now)
    for data, _ in client.datagrams_to_send(now=now):
        server.receive_datagram(data, CLIENT_ADDR, now=now)
        received += len(data)
    print("server received %d bytes from %s" % (received, CLIENT_ADDR[0]))

    # server flight and PTO retransmissions, all lost, until the budget is used up
    drain("flight")
    while server.get_timer() is not None and server.get_timer() < 5.0:  # PTOs only
        now = server.get_timer()
        server.handle_timer(now=now)
        drain("pto")
    now += 0.1
    path = server._network_paths[0]
    print(
        "address validated: %s, remaining budget %d bytes"
        % (path.is_validated, 3 * received - sent)
    )
    assert not path.is_validated

    # the application gives up on the connection
    server.close(error_code=0, reason_phrase="giving up")
    drain("close")

    if violations:
        print(
            "VIOLATION: (datagram size, total sent, 3 x total received):", violations
        )
        return 1
    print("no violation observed")
    return 0


if __name__ == "__main__":
    sys.exit(main())
