#!/usr/bin/env python
"""
Delivery-order independence of HTTP/3 events when a PUSH_PROMISE is QPACK-blocked.

An H3 client and an H3 server talk through an in-memory fake QUIC layer.  The
server sends a PUSH_PROMISE whose header block references a QPACK dynamic
table entry inserted by encoder-stream bytes that are still in flight.  The
server's bytes are handed to the client in two orders:

  A: QPACK encoder stream first, then the request stream, then everything else
  B: request stream first (PUSH_PROMISE blocks), then the encoder stream, ...

The per-stream byte sequences are identical in both runs, so the H3 events the
client produces must be identical.  Exit 0 if they are, exit 1 if not.

Run:  PYTHONPATH=/repo/src /venv/bin/python /tmp/demo14/blocked_push_promise.py
"""
import sys
from types import SimpleNamespace

from aioquic.h3.connection import H3Connection
from aioquic.h3.events import (
    DataReceived,
    HeadersReceived,
    PushPromiseReceived,
)
from aioquic.quic.events import StreamDataReceived


class FakeQuic:
    """Minimal stand-in for QuicConnection: records what H3 wants to send."""

    def __init__(self, is_client):
        self.configuration = SimpleNamespace(is_client=is_client)
        self._quic_logger = None
        self._remote_max_datagram_frame_size = None
        self._next_bidi = 0 if is_client else 1
        self._next_uni = 2 if is_client else 3
        self.outbox = []  # [(stream_id, data, fin)] in send order
        self.closed = None  # (error_code, reason) once close() is called

    def get_next_available_stream_id(self, is_unidirectional=False):
        if is_unidirectional:
            sid, self._next_uni = self._next_uni, self._next_uni + 4
        else:
            sid, self._next_bidi = self._next_bidi, self._next_bidi + 4
        return sid

    def send_stream_data(self, stream_id, data, end_stream=False):
        self.outbox.append((stream_id, bytes(data), end_stream))

    def close(self, error_code=0, frame_type=None, reason_phrase=""):
        if self.closed is None:
            self.closed = (int(error_code), reason_phrase)


def norm(ev):
    """Turn an H3 event into a comparable tuple."""
    if isinstance(ev, PushPromiseReceived):
        return ("PushPromise", ev.stream_id, ev.push_id, tuple(ev.headers))
    if isinstance(ev, HeadersReceived):
        return ("Headers", ev.stream_id, ev.push_id, tuple(ev.headers), ev.stream_ended)
    if isinstance(ev, DataReceived):
        return ("Data", ev.stream_id, ev.push_id, ev.data, ev.stream_ended)
    return (type(ev).__name__, repr(ev))


def deliver(sender, receiver_h3, only=None):
    """
    Move queued bytes from `sender` to `receiver_h3`, preserving per-stream
    order.  If `only` is given, only that stream's bytes are delivered (the rest
    stays queued).  Returns the normalised H3 events.
    """
    take = [c for c in sender.outbox if only is None or c[0] == only]
    sender.outbox = [c for c in sender.outbox if not (only is None or c[0] == only)]
    events = []
    for stream_id, data, fin in take:
        events.extend(
            receiver_h3.handle_event(
                StreamDataReceived(data=data, end_stream=fin, stream_id=stream_id)
            )
        )
    return [norm(e) for e in events]


def merge_data(events):
    """Coalesce adjacent Data events of one stream (splitting is not semantic)."""
    out = []
    for e in events:
        if out and e[0] == "Data" and out[-1][0] == "Data" and out[-1][1:3] == e[1:3] \
                and not out[-1][4]:
            out[-1] = ("Data", e[1], e[2], out[-1][3] + e[3], e[4])
        else:
            out.append(e)
    return out


REQUEST = [(b":method", b"GET"), (b":scheme", b"https"),
           (b":authority", b"example.com"), (b":path", b"/index.html")]
PROMISE = [(b":method", b"GET"), (b":scheme", b"https"),
           (b":authority", b"example.com"), (b":path", b"/pushed/resource.css"),
           (b"x-demo", b"some-long-value-1234567890")]
RESPONSE = [(b":status", b"200"), (b"content-type", b"text/plain")]


def run(order):
    qc, qs = FakeQuic(True), FakeQuic(False)
    client, server = H3Connection(qc), H3Connection(qs)
    log = []

    def sync():
        # full, in-order exchange in both directions until quiescent
        while qc.outbox or qs.outbox:
            deliver(qc, server)
            log.extend(deliver(qs, client))

    sync()  # SETTINGS + QPACK encoder configuration

    # Warm-up: first sighting of PROMISE headers -> encoder emits literals only
    # but remembers them; nothing can block here.
    sid0 = client._quic.get_next_available_stream_id()
    client.send_headers(sid0, REQUEST, end_stream=True)
    deliver(qc, server)
    server.send_push_promise(sid0, PROMISE)
    server.send_headers(sid0, RESPONSE)
    server.send_data(sid0, b"warm-up", end_stream=True)
    sync()
    warm = len(log)

    # Main: second sighting -> encoder inserts into the dynamic table (encoder
    # stream) and the PUSH_PROMISE header block references the new entries.
    sid = client._quic.get_next_available_stream_id()
    client.send_headers(sid, REQUEST, end_stream=True)
    deliver(qc, server)
    enc_before = server._encoder_bytes_sent
    push_stream = server.send_push_promise(sid, PROMISE)
    server.send_headers(sid, RESPONSE)
    server.send_data(sid, b"hello", end_stream=True)
    server.send_headers(push_stream, RESPONSE)
    server.send_data(push_stream, b"pushed body", end_stream=True)
    enc_bytes = server._encoder_bytes_sent - enc_before
    enc_stream = server._local_encoder_stream_id

    first, second = (enc_stream, sid) if order == "A" else (sid, enc_stream)
    ev_first = deliver(qs, client, only=first)
    blocked_after_first = sid in client._stream and client._stream[sid].blocked
    ev_second = deliver(qs, client, only=second)
    log.extend(ev_first + ev_second)
    sync()  # push stream and anything left

    return SimpleNamespace(
        events=merge_data(log[warm:]), closed=qc.closed, enc_bytes=enc_bytes,
        blocked=blocked_after_first, ev_first=ev_first, sid=sid,
    )


def main():
    a, b = run("A"), run("B")
    print("server wrote %d encoder-stream bytes for the PUSH_PROMISE" % b.enc_bytes)
    blocked = b.blocked and not any(e[0] == "PushPromise" for e in b.ev_first)
    print("order B: request stream %d blocked on QPACK after request-stream bytes "
          "(no PushPromise yet): %s" % (b.sid, blocked))
    if not blocked or a.blocked:
        print("INCONCLUSIVE: could not make the PUSH_PROMISE block in order B only")
        return 2
    for name, r in (("A (encoder stream first)", a), ("B (request stream first)", b)):
        print("--- order %s" % name)
        for e in r.events:
            print("   ", e)
        print("    client closed connection:", r.closed)
    same = a.events == b.events and a.closed == b.closed
    print("RESULT:", "identical" if same else
          "DIFFERENT -- H3 events depend on cross-stream delivery order")
    return 0 if same else 1


if __name__ == "__main__":
    sys.exit(main())
