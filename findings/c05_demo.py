"""Demonstrates the C05 defects (network input makes the TLS/QUIC API raise).
Run with PYTHONPATH=<tree>/src; prints DEFECT lines on the unrepaired tree, OK lines on the repaired one."""
import sys, os
sys.path.insert(0, os.path.join(os.path.dirname(os.path.abspath(__file__)), "..", "..", "repo", "tests"))
sys.path.insert(0, "/repo/tests")
from aioquic import tls
from aioquic.buffer import Buffer
from aioquic.tls import Context, State, Alert
from aioquic.quic.configuration import QuicConfiguration
from aioquic.quic.connection import QuicConnection

bad = 0
def attempt(name, fn):
    global bad
    try:
        fn()
        print("OK  ", name, "(no exception)")
    except Alert as exc:
        print("OK  ", name, "->", type(exc).__name__)
    except Exception as exc:
        print("DEFECT", name, "->", type(exc).__name__, str(exc)[:60])
        bad += 1

def client_ctx():
    c = Context(is_client=True)
    c.handshake_extensions = []
    bufs = {e: Buffer(capacity=16384) for e in (tls.Epoch.INITIAL, tls.Epoch.HANDSHAKE, tls.Epoch.ONE_RTT)}
    c.handle_message(b"", bufs)
    return c, bufs

def server_hello(key_share, version=tls.TLS_VERSION_1_3, suite=tls.CipherSuite.AES_256_GCM_SHA384):
    buf = Buffer(capacity=1000)
    tls.push_server_hello(buf, tls.ServerHello(random=bytes(32), legacy_session_id=b"", cipher_suite=suite, compression_method=0, key_share=key_share, supported_version=version))
    return buf.data

# 1. ServerHello with a malformed X25519 share / unsupported group / no key_share / low-order point
for label, ks in (("malformed x25519 share", (tls.Group.X25519, b"\x01" * 5)), ("unsupported group", (0x9999, b"xx")), ("missing key_share", None), ("low-order x25519 point", (tls.Group.X25519, bytes(32))), ("malformed secp256r1 point", (tls.Group.SECP256R1, b"\x04" + bytes(64)))):
    c, bufs = client_ctx()
    attempt("client: ServerHello with " + label, lambda: c.handle_message(server_hello(ks), bufs))

# 2. server: ClientHello with a non-ASCII server name / no key_share
def client_hello_bytes(mutate):
    c, bufs = client_ctx()
    data = bufs[tls.Epoch.INITIAL].data
    hello = tls.pull_client_hello(Buffer(data=data))
    mutate(hello)
    out = Buffer(capacity=4096)
    tls.push_client_hello(out, hello)
    return out.data

def server_ctx():
    from utils import SERVER_CERTFILE, SERVER_KEYFILE
    cfg = QuicConfiguration(is_client=False); cfg.load_cert_chain(SERVER_CERTFILE, SERVER_KEYFILE)
    s = Context(is_client=False)
    s.certificate, s.certificate_private_key = cfg.certificate, cfg.private_key
    s.handshake_extensions = []
    return s, {e: Buffer(capacity=16384) for e in (tls.Epoch.INITIAL, tls.Epoch.HANDSHAKE, tls.Epoch.ONE_RTT)}

raw = client_hello_bytes(lambda h: None)
# non-ascii SNI: patch the serialized bytes of a hello with server_name "aaaa"
def sni_hello():
    c = Context(is_client=True, server_name="aaaa"); c.handshake_extensions = []
    bufs = {e: Buffer(capacity=16384) for e in (tls.Epoch.INITIAL, tls.Epoch.HANDSHAKE, tls.Epoch.ONE_RTT)}
    c.handle_message(b"", bufs)
    return bufs[tls.Epoch.INITIAL].data.replace(b"aaaa", b"\xff\xfe\xfd\xfc")
s, sb = server_ctx(); attempt("server: ClientHello with non-ASCII server_name", lambda: s.handle_message(sni_hello(), sb))
def strip_ks(h): h.key_share = []
s, sb = server_ctx(); attempt("server: ClientHello with empty key_share list", lambda: s.handle_message(client_hello_bytes(strip_ks), sb))
def low_ks(h): h.key_share = [(tls.Group.X25519, bytes(32))]
s, sb = server_ctx(); attempt("server: ClientHello with low-order x25519 point", lambda: s.handle_message(client_hello_bytes(low_ks), sb))

# 3. EncryptedExtensions with an empty ALPN list; Certificate with no / malformed entries
def ee_empty_alpn():
    buf = Buffer(capacity=100)
    buf.push_uint8(tls.HandshakeType.ENCRYPTED_EXTENSIONS)
    with tls.push_block(buf, 3):
        with tls.push_block(buf, 2):
            with tls.push_extension(buf, tls.ExtensionType.ALPN):
                with tls.push_block(buf, 2):
                    pass
    return buf.data
attempt("pull_encrypted_extensions with empty ALPN list", lambda: tls.pull_encrypted_extensions(Buffer(data=ee_empty_alpn())))
c = Context(is_client=True)
attempt("_set_peer_certificate with empty certificate list", lambda: c._set_peer_certificate(tls.Certificate(request_context=b"", certificates=[])))
attempt("_set_peer_certificate with malformed DER", lambda: c._set_peer_certificate(tls.Certificate(request_context=b"", certificates=[(b"garbage", b"")])))

# 4. server connection whose first packet is a short-header packet
from utils import SERVER_CERTFILE, SERVER_KEYFILE
cfg = QuicConfiguration(is_client=False); cfg.load_cert_chain(SERVER_CERTFILE, SERVER_KEYFILE)
conn = QuicConnection(configuration=cfg, original_destination_connection_id=bytes(8))
attempt("server: first packet is a 1-RTT packet", lambda: conn.receive_datagram(bytes([0x40]) + conn.host_cid + bytes(40), ("1.2.3.4", 1234), now=0.0))

sys.exit(1 if bad else 0)
