"""C05: a server connection whose first datagram is dropped before initialisation (unparsable header,
short Initial, unsupported version ...) has no network path yet; the next datagrams_to_send() - which
every driver calls after receive_datagram() - raised IndexError at `self._network_paths[0]`, also after
the connection had terminated at its idle deadline.  Exit 0 = API returns normally, 1 = it raised."""
import sys

from aioquic.quic.configuration import QuicConfiguration
from aioquic.quic.connection import QuicConnection

cfg = QuicConfiguration(is_client=False)
cfg.load_cert_chain("/repo/tests/ssl_cert.pem", "/repo/tests/ssl_key.pem")
for garbage in (b"\x00" * 30, b"\xc0" + b"\x00" * 10, b"\xc3\x00\x00\x00\x01\x08" + b"\x11" * 8 + b"\x00" * 40):
    s = QuicConnection(configuration=cfg, original_destination_connection_id=b"\x00" * 8)
    s.receive_datagram(garbage, ("192.0.2.1", 1234), now=0.0)
    try:
        assert s.datagrams_to_send(now=0.1) == []
        t = s.get_timer()
        if t is not None:
            s.handle_timer(now=t)
            assert s.datagrams_to_send(now=t) == []
    except IndexError as exc:
        print("datagrams_to_send raised", type(exc).__name__, exc)
        sys.exit(1)
print("OK")
