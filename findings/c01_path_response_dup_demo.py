#!/venv/bin/python
"""
B. A network that merely DUPLICATES the datagram carrying a PATH_RESPONSE makes
   the receiver close the connection with PROTOCOL_VIOLATION.

Property checked: duplication of datagrams by the network never terminates a
connection between two honest endpoints (RFC 9000 section 12.3: "A receiver
MUST discard a newly unprotected packet unless it is certain that it has not
processed another packet with the same packet number from the same packet
number space").

Scenario (public API only, two honest unmodified endpoints, virtual clock):
  * handshake, one request/response on stream 0;
  * the client's address changes (NAT rebinding): its next datagram reaches the
    server from a new source address;
  * the server starts path validation: PATH_CHALLENGE to the new address;
  * the client answers with PATH_RESPONSE;
  * the network delivers that datagram twice (bit-for-bit identical copies).

A control run with the same events but without the duplication is done first.

Exit 1 if the duplicated run terminates the connection while the control run
does not, exit 0 otherwise.
"""
import sys

from aioquic.quic import events
from aioquic.quic.configuration import QuicConfiguration
from aioquic.quic.connection import QuicConnection
from aioquic.quic.logger import QuicLogger

CLIENT_ADDR = ("1.2.3.4", 1234)
CLIENT_ADDR_2 = ("1.2.3.4", 5678)  # after NAT rebinding
SERVER_ADDR = ("2.3.4.5", 4433)
CERT = "/repo/tests/ssl_cert.pem"
KEY = "/repo/tests/ssl_key.pem"
CA = "/repo/tests/pycacert.pem"


class Sim:
    """Two real QuicConnection objects, a scriptable network, a virtual clock."""

    def __init__(self):
        self.now = 1000.0
        self.latency = 0.02  # one-way, seconds
        self.client_logger = QuicLogger()
        self.server_logger = QuicLogger()
        ccfg = QuicConfiguration(is_client=True, quic_logger=self.client_logger)
        ccfg.load_verify_locations(cafile=CA)
        scfg = QuicConfiguration(is_client=False, quic_logger=self.server_logger)
        scfg.load_cert_chain(CERT, KEY)
        self.client = QuicConnection(configuration=ccfg)
        self.server = QuicConnection(
            configuration=scfg,
            original_destination_connection_id=(
                self.client.original_destination_connection_id
            ),
        )
        self.client_addr = CLIENT_ADDR
        self.inflight = []  # (arrival_time, seq, receiver, data, from_addr)
        self.seq = 0
        self.events = {id(self.client): [], id(self.server): []}
        self.server_started = False  # a server cannot transmit before it receives
        # network behaviour: number of copies delivered for a datagram
        self.copies = lambda sender, data: 1
        self.sent_log = []  # (sender_label, index, data)

    def flush(self, conn):
        """What the event loop does after every API call: transmit."""
        if conn is self.server and not self.server_started:
            return 0
        peer = self.server if conn is self.client else self.client
        addr = self.client_addr if conn is self.client else SERVER_ADDR
        n = 0
        for data, _ in conn.datagrams_to_send(now=self.now):
            for _copy in range(self.copies(conn, data)):
                self.seq += 1
                self.inflight.append(
                    (self.now + self.latency, self.seq, peer, data, addr)
                )
            n += 1
        return n

    def collect(self, conn):
        while True:
            ev = conn.next_event()
            if ev is None:
                break
            self.events[id(conn)].append(ev)

    def run(self, duration):
        """Deliver datagrams and fire timers for `duration` virtual seconds."""
        end = self.now + duration
        while True:
            self.flush(self.client)
            self.flush(self.server)
            candidates = []
            if self.inflight:
                candidates.append(min(x[0] for x in self.inflight))
            for c in (self.client, self.server):
                t = c.get_timer()
                if t is not None:
                    candidates.append(t)
            if not candidates:
                break
            t = max(min(candidates), self.now)
            if t > end:
                break
            self.now = t
            due = sorted(x for x in self.inflight if x[0] <= self.now)
            self.inflight = [x for x in self.inflight if x[0] > self.now]
            for _, _, receiver, data, addr in due:
                receiver.receive_datagram(data, addr, now=self.now)
                if receiver is self.server:
                    self.server_started = True
                self.collect(receiver)
            for c in (self.client, self.server):
                t = c.get_timer()
                if t is not None and t <= self.now:
                    c.handle_timer(now=self.now)
                    self.collect(c)
        self.now = end


def frames_sent(logger, name):
    """Count frames of a given qlog type sent, from the endpoint's own qlog."""
    n = 0
    for trace in logger.to_dict()["traces"]:
        for ev in trace["events"]:
            if ev["name"] == "transport:packet_sent":
                n += sum(1 for f in ev["data"]["frames"] if f["frame_type"] == name)
    return n


def scenario(duplicate):
    print("--- run with duplicate=%s" % duplicate)
    sim = Sim()
    client, server = sim.client, sim.server
    client.connect(SERVER_ADDR, now=sim.now)
    sim.run(1.0)
    if not any(
        isinstance(e, events.HandshakeCompleted) for e in sim.events[id(server)]
    ):
        print("SETUP FAILURE: handshake did not complete")
        sys.exit(2)
    client.send_stream_data(0, b"ping")
    sim.run(1.0)

    # The network duplicates exactly the client datagrams that carry a
    # PATH_RESPONSE.  To decide which ones those are without touching the
    # endpoints we look at the client's own qlog after each transmit.
    state = {"responses_seen": 0, "duplicated": 0}

    def copies(sender, data):
        if sender is not client:
            return 1
        n = frames_sent(sim.client_logger, "path_response")
        if n > state["responses_seen"]:
            state["responses_seen"] = n
            if duplicate:
                state["duplicated"] += 1
                return 2
        return 1

    sim.copies = copies

    # NAT rebinding: same client, new source address as seen by the server.
    sim.client_addr = CLIENT_ADDR_2
    client.send_stream_data(0, b"ping again")
    sim.run(5.0)

    print(
        "server sent %d PATH_CHALLENGE, client sent %d PATH_RESPONSE, network "
        "duplicated %d datagram(s)"
        % (
            frames_sent(sim.server_logger, "path_challenge"),
            frames_sent(sim.client_logger, "path_response"),
            state["duplicated"],
        )
    )
    terminated = []
    for c, label in ((client, "client"), (server, "server")):
        for e in sim.events[id(c)]:
            if isinstance(e, events.ConnectionTerminated):
                print(
                    "%s ConnectionTerminated: error_code=0x%x frame_type=%s reason=%r"
                    % (label, e.error_code, e.frame_type, e.reason_phrase)
                )
                terminated.append((label, e))
    got = b"".join(
        e.data
        for e in sim.events[id(server)]
        if isinstance(e, events.StreamDataReceived)
    )
    print("server received on stream 0: %r" % got)
    if frames_sent(sim.client_logger, "path_response") == 0:
        print("SETUP FAILURE: no path validation happened")
        sys.exit(2)
    return terminated


def main():
    control = scenario(duplicate=False)
    dup = scenario(duplicate=True)
    if control:
        print("UNEXPECTED: the control run (no duplication) was terminated too")
        return 1
    if dup:
        print(
            "DEFECT: two honest endpoints, the only network misbehaviour is one "
            "duplicated datagram, and the connection is closed with a protocol "
            "error: the second copy of the packet is processed again "
            "(no duplicate packet number suppression) and its PATH_RESPONSE no "
            "longer matches a pending challenge."
        )
        return 1
    print("OK: duplication tolerated")
    return 0


if __name__ == "__main__":
    sys.exit(main())
