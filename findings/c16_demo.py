"""Demonstrates the C16 defects: peer stream bytes make the HTTP layers raise.  Prints DEFECT/OK lines."""
import sys
sys.path.insert(0, "/repo")
from tests.test_h3 import FakeQuicConnection, h3_client_and_server
from aioquic.buffer import encode_uint_var
from aioquic.h3.connection import H3Connection, FrameType, StreamType, encode_frame, encode_settings, Setting
from aioquic.h0.connection import H0Connection
from aioquic.quic.configuration import QuicConfiguration
from aioquic.quic.events import StreamDataReceived, StopSendingReceived
from aioquic.quic.logger import QuicLogger

bad = 0
def attempt(name, fn):
    global bad
    try:
        fn(); print("OK  ", name)
    except Exception as exc:
        print("DEFECT", name, "->", type(exc).__name__, str(exc)[:70]); bad += 1

def server(logger=False):
    cfg = QuicConfiguration(is_client=False)
    if logger: cfg.quic_logger = QuicLogger()
    q = FakeQuicConnection(configuration=cfg)
    if logger: q._quic_logger = cfg.quic_logger.start_trace(is_client=False, odcid=b"")
    return q, H3Connection(q)

ctrl = encode_uint_var(StreamType.CONTROL)
settings = encode_frame(FrameType.SETTINGS, encode_settings({Setting.QPACK_MAX_TABLE_CAPACITY: 0}))
q, h3 = server(); attempt("truncated SETTINGS value", lambda: h3.handle_event(StreamDataReceived(stream_id=2, data=ctrl + encode_frame(FrameType.SETTINGS, b"\x01"), end_stream=False)))
q, h3 = server(); attempt("truncated MAX_PUSH_ID", lambda: h3.handle_event(StreamDataReceived(stream_id=2, data=ctrl + settings + encode_frame(FrameType.MAX_PUSH_ID, b"\x40"), end_stream=False)))
q, h3 = server(); attempt("MAX_PUSH_ID with trailing bytes", lambda: h3.handle_event(StreamDataReceived(stream_id=2, data=ctrl + settings + encode_frame(FrameType.MAX_PUSH_ID, b"\x01\x02"), end_stream=False)))
cfg = QuicConfiguration(is_client=True); qc = FakeQuicConnection(configuration=cfg); h3c = H3Connection(qc)
attempt("empty PUSH_PROMISE", lambda: h3c.handle_event(StreamDataReceived(stream_id=0, data=encode_frame(FrameType.PUSH_PROMISE, b""), end_stream=False)))
qs = FakeQuicConnection(configuration=QuicConfiguration(is_client=False)); h0 = H0Connection(qs)
attempt("HTTP/0.9 request line without a space", lambda: h0.handle_event(StreamDataReceived(stream_id=0, data=b"GET\r\n", end_stream=True)))
# non-UTF-8 header value with the qlog logger enabled
q, h3 = server(logger=True)
qc2 = FakeQuicConnection(configuration=QuicConfiguration(is_client=True)); qc2._quic_logger = None; c2 = H3Connection(qc2)
c2.send_headers(0, [(b":method", b"GET"), (b":scheme", b"https"), (b":authority", b"x"), (b":path", b"/"), (b"x-bin", b"\xff\xfe")], end_stream=True)
def feed():
    for sid, data, fin in [(s, d, f) for (s, d, f) in qc2.stream_queue] if hasattr(qc2, "stream_queue") else []:
        h3.handle_event(StreamDataReceived(stream_id=sid, data=data, end_stream=fin))
import inspect
queue = getattr(qc2, "stream_queue", None)
if queue is None:
    print("(skipped logger case: FakeQuicConnection has no stream_queue)")
else:
    def run():
        for ev in list(queue):
            h3.handle_event(ev if isinstance(ev, StreamDataReceived) else StreamDataReceived(stream_id=ev[0], data=ev[1], end_stream=ev[2]))
    attempt("non-UTF-8 header value with qlog enabled", run)
sys.exit(1 if bad else 0)
