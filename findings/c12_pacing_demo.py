"""C12 triage demo (NOT a defect - kept to document why C12-R3 only demands the pacing bypass for a
strictly overdue ACK): the scenario below was written to show that a due ACK is postponed by the pacer when the timer fires exactly at the ACK deadline.

_write_application applies pacing unless `space.ack_at < now`; the ACK itself is written when
`space.ack_at <= now`.  A caller that fires the timer exactly at get_timer() (now == ack_at, the
normal sans-IO pattern) therefore gets *no* datagram while the pacing bucket is empty, and the ACK
leaves only at the next pacing slot - on a long-RTT path that is far beyond the advertised
max_ack_delay of 25 ms.

exit 0: the ACK-bearing packet is sent within max_ack_delay of the arrival; exit 1 otherwise.
Run: PYTHONPATH=/repo/src /venv/bin/python findings/c12_pacing_demo.py
"""
import sys

from aioquic.quic.configuration import QuicConfiguration
from aioquic.quic.connection import QuicConnection

TESTS = "/repo/tests/"
CA, SA = ("1.2.3.4", 1234), ("2.3.4.5", 4433)
ONE_WAY = 0.5  # seconds: RTT 1 s


def main():
    cc = QuicConfiguration(is_client=True)
    cc.load_verify_locations(cafile=TESTS + "pycacert.pem")
    sc = QuicConfiguration(is_client=False)
    sc.load_cert_chain(TESTS + "ssl_cert.pem", TESTS + "ssl_key.pem")
    client = QuicConnection(configuration=cc)
    server = QuicConnection(configuration=sc, original_destination_connection_id=client.original_destination_connection_id)
    t = 0.0
    client.connect(SA, now=t)
    # handshake with a constant one-way latency
    for _ in range(6):
        for d, _a in client.datagrams_to_send(now=t):
            server.receive_datagram(d, CA, now=t + ONE_WAY)
        t += ONE_WAY
        for d, _a in server.datagrams_to_send(now=t):
            client.receive_datagram(d, SA, now=t + ONE_WAY)
        t += ONE_WAY
    while client.next_event():
        pass
    while server.next_event():
        pass
    assert server._handshake_complete and client._handshake_complete

    # the server sends a burst that empties its pacing bucket
    sid = server.get_next_available_stream_id()
    server.send_stream_data(sid, b"x" * 60000)
    sent = server.datagrams_to_send(now=t)
    assert server._pacing_at is not None, "expected the server to be pacing-limited"

    # an ack-eliciting packet from the client arrives at the server
    client.send_ping(1)
    dgrams = client.datagrams_to_send(now=t)
    arrival = t + 0.010
    for d, _a in dgrams:
        server.receive_datagram(d, CA, now=arrival)
    space = next(s for s in server._loss.spaces if s.ack_at is not None)
    deadline = space.ack_at
    advertised = 0.025

    # fire the timer exactly when asked, until the ACK leaves
    now = arrival
    for _ in range(50):
        timer = server.get_timer()
        assert timer is not None
        now = max(now, timer)
        server.handle_timer(now=now)
        out = server.datagrams_to_send(now=now)
        if space.ack_at is None:
            delay = now - arrival
            print(f"ACK sent {delay * 1000:.1f} ms after arrival (deadline was +{(deadline - arrival) * 1000:.1f} ms, advertised max_ack_delay 25 ms)")
            if delay > advertised + 1e-9:
                print("FAIL: ack-eliciting packet acknowledged later than the advertised delay although every timer was fired on time")
                return 1
            print("OK")
            return 0
    print("FAIL: ACK never sent")
    return 1


if __name__ == "__main__":
    sys.exit(main())
