"""C01: end-of-stream was signalled twice when the network only delays one datagram.

The packet carrying STREAM+FIN is overtaken by later packets, declared lost by the packet threshold and retransmitted;
the retransmission is delivered, then the delayed original arrives.  Before /repo commit "fix: a retransmitted STREAM
frame no longer signals the end of the stream a second time" the server application saw two StreamDataReceived events
with end_stream=True.  Exits 0 on the repaired tree.
"""
import sys
sys.path.insert(0, "/repo/src")
# connection level: ACK of the client's FIN-carrying packet is lost, PTO retransmits the frame in a new packet
import os
from aioquic.quic.configuration import QuicConfiguration
from aioquic.quic.connection import QuicConnection
from aioquic.quic import events
from aioquic.buffer import Buffer
T="/repo/tests/"
cc = QuicConfiguration(is_client=True); cc.load_verify_locations(T+"pycacert.pem")
sc = QuicConfiguration(is_client=False); sc.load_cert_chain(T+"ssl_cert.pem", T+"ssl_key.pem")
c = QuicConnection(configuration=cc)
CA, SA = ("1.2.3.4", 1234), ("2.3.4.5", 4433)
now = 0.0
c.connect(SA, now=now)
def xfer(a, b, addr, now, drop=False):
    n = 0
    for d, _ in a.datagrams_to_send(now=now):
        n += 1
        if not drop:
            b.receive_datagram(d, addr, now=now)
    return n
s = None
# server created on first datagram
from aioquic.quic.packet import pull_quic_header
for d, _ in c.datagrams_to_send(now=now):
    if s is None:
        h = pull_quic_header(Buffer(data=d), host_cid_length=8)
        s = QuicConnection(configuration=sc, original_destination_connection_id=h.destination_cid)
    s.receive_datagram(d, CA, now=now)
for i in range(6):
    now += 0.01
    xfer(s, c, SA, now); xfer(c, s, CA, now)
def drain(x):
    out = []
    e = x.next_event()
    while e is not None:
        out.append(e); e = x.next_event()
    return out
drain(c); drain(s)
sid = c.get_next_available_stream_id()
c.send_stream_data(sid, b"hello", end_stream=True)
now += 0.01
held = [d for d, _ in c.datagrams_to_send(now=now)]      # P1: delayed by the network
assert len(held) == 1
evs = []
for i in range(4):                                        # later packets overtake it and are acknowledged
    now += 0.01
    c.send_ping(i)
    xfer(c, s, CA, now)
    now += 0.03
    xfer(s, c, SA, now)
    evs += drain(s)
now += 0.01
xfer(c, s, CA, now)                                       # retransmission of the "lost" frame
evs += drain(s)
s.receive_datagram(held[0], CA, now=now + 0.001)          # the delayed original arrives after all
evs += drain(s)
sd = [e for e in evs if isinstance(e, events.StreamDataReceived)]
print(sd)
ends = [e for e in sd if e.end_stream]
assert len(ends) <= 1, f"end of stream signalled {len(ends)} times: {ends}"
print("OK")
