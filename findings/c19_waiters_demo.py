"""C19 finding: connect / ping waiters created after the event they wait for never finish.
  (1) wait_connected() called after the handshake completed (connect(..., wait_connected=False) pattern) hangs:
      _connected is only set when a waiter was already present when HandshakeCompleted was processed;
  (2) wait_connected() and ping() called after the connection terminated hang: nothing completes a waiter
      that is created after ConnectionTerminated was processed.
exit 0 when every waiter finishes (with success or ConnectionError) within the timeout."""
import asyncio
import sys

from aioquic.asyncio.protocol import QuicConnectionProtocol
from aioquic.quic.configuration import QuicConfiguration
from aioquic.quic.connection import QuicConnection

T = "/repo/tests/"
CA, SA = ("1.2.3.4", 1234), ("2.3.4.5", 4433)


class Pipe(asyncio.DatagramTransport):
    def __init__(self):
        self.peer = None
        self.addr = None

    def sendto(self, data, addr=None):
        asyncio.get_running_loop().call_soon(self.peer.datagram_received, data, self.addr)

    def close(self):
        pass


async def pair():
    cc = QuicConfiguration(is_client=True)
    cc.load_verify_locations(cafile=T + "pycacert.pem")
    sc = QuicConfiguration(is_client=False)
    sc.load_cert_chain(T + "ssl_cert.pem", T + "ssl_key.pem")
    cq = QuicConnection(configuration=cc)
    sq = QuicConnection(configuration=sc, original_destination_connection_id=cq.original_destination_connection_id)
    c, s = QuicConnectionProtocol(cq), QuicConnectionProtocol(sq)
    tc, ts = Pipe(), Pipe()
    tc.peer, tc.addr = s, CA
    ts.peer, ts.addr = c, SA
    c.connection_made(tc)
    s.connection_made(ts)
    c.connect(SA)
    return c, s


async def finishes(coro, what):
    try:
        await asyncio.wait_for(coro, timeout=2.0)
        print(f"ok   {what}: finished")
        return True
    except ConnectionError:
        print(f"ok   {what}: ConnectionError")
        return True
    except asyncio.TimeoutError:
        print(f"HANG {what}: waiter never finished")
        return False


async def main():
    res = []
    c, s = await pair()
    await asyncio.sleep(0.3)  # handshake completes while nobody waits
    assert c._quic._handshake_complete
    res.append(await finishes(c.wait_connected(), "wait_connected() after the handshake completed"))
    c, s = await pair()
    await asyncio.sleep(0.3)
    c.close()
    await asyncio.wait_for(c.wait_closed(), timeout=5.0)
    res.append(await finishes(c.ping(), "ping() after termination"))
    c2, s2 = await pair()
    c2.close()
    await asyncio.wait_for(c2.wait_closed(), timeout=5.0)
    res.append(await finishes(c2.wait_connected(), "wait_connected() after termination (handshake never completed)"))
    return 0 if all(res) else 1


if __name__ == "__main__":
    sys.exit(asyncio.run(main()))
