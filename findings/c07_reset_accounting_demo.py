#!/venv/bin/python
"""
C. Receive-side accounting of RESET_STREAM / final size.

 (i)  A RESET_STREAM that is processed twice (the datagram is duplicated by the
      network; a spurious retransmission has the same effect) is charged twice
      against the connection-level flow control window, so an HONEST peer that
      never exceeded the advertised MAX_DATA is accused of FLOW_CONTROL_ERROR.
      Honest unmodified aioquic client and server; the network loses the
      stream data datagrams, then either duplicates the datagram that carries
      RESET_STREAM (=> connection closed with FLOW_CONTROL_ERROR) or merely
      delays it so that the client retransmits the frame (=> the server's
      connection-level counter is twice the truth; read from
      _local_max_data.used).  A control run is done first.

 (ii) A final size smaller than the highest offset already received must be
      answered with FINAL_SIZE_ERROR (RFC 9000 section 4.5).  A hostile client
      (packets built with aioquic's QuicPacketBuilder and the client's 1-RTT
      keys) sends
        (a) RESET_STREAM with final_size below the received highest offset,
        (b) a STREAM frame with FIN whose end is below the received highest
            offset,
      and the server accepts both.

Exit 1 if any of the three manifests, 0 otherwise.
"""
import sys

from aioquic import tls
from aioquic.quic import events
from aioquic.quic.configuration import QuicConfiguration
from aioquic.quic.connection import QuicConnection
from aioquic.quic.logger import QuicLogger
from aioquic.quic.packet import QuicErrorCode, QuicFrameType, QuicPacketType
from aioquic.quic.packet_builder import QuicPacketBuilder

CLIENT_ADDR = ("1.2.3.4", 1234)
SERVER_ADDR = ("2.3.4.5", 4433)
CERT = "/repo/tests/ssl_cert.pem"
KEY = "/repo/tests/ssl_key.pem"
CA = "/repo/tests/pycacert.pem"


class Sim:
    """Two real QuicConnection objects, a scriptable network, a virtual clock."""

    def __init__(self, server_options={}):
        self.now = 1000.0
        self.latency = 0.02  # one-way, seconds
        self.client_logger = QuicLogger()
        self.server_logger = QuicLogger()
        ccfg = QuicConfiguration(is_client=True, quic_logger=self.client_logger)
        ccfg.load_verify_locations(cafile=CA)
        scfg = QuicConfiguration(
            is_client=False, quic_logger=self.server_logger, **server_options
        )
        scfg.load_cert_chain(CERT, KEY)
        self.client = QuicConnection(configuration=ccfg)
        self.server = QuicConnection(
            configuration=scfg,
            original_destination_connection_id=(
                self.client.original_destination_connection_id
            ),
        )
        self.client_addr = CLIENT_ADDR
        self.inflight = []  # (arrival_time, seq, receiver, data, from_addr)
        self.seq = 0
        self.events = {id(self.client): [], id(self.server): []}
        self.server_started = False  # a server cannot transmit before it receives
        # network behaviour: one-way delay of each delivered copy of a datagram
        # ([] = lost, two entries = duplicated); None = one copy, normal latency
        self.route = lambda sender, data: None
        # True: the receiver transmits after every datagram, as aioquic's asyncio
        # glue does; False: the receiver transmits after the batch of datagrams
        # that arrived at the same instant, as tests/test_connection.py transfer()
        self.transmit_after_each = True

    def flush(self, conn):
        """What the event loop does after every API call: transmit."""
        if conn is self.server and not self.server_started:
            return 0
        peer = self.server if conn is self.client else self.client
        addr = self.client_addr if conn is self.client else SERVER_ADDR
        n = 0
        for data, _ in conn.datagrams_to_send(now=self.now):
            delays = self.route(conn, data)
            if delays is None:
                delays = [self.latency]
            for delay in delays:
                self.seq += 1
                self.inflight.append((self.now + delay, self.seq, peer, data, addr))
            n += 1
        return n

    def collect(self, conn):
        while True:
            ev = conn.next_event()
            if ev is None:
                break
            self.events[id(conn)].append(ev)

    def run(self, duration):
        """Deliver datagrams and fire timers for `duration` virtual seconds."""
        end = self.now + duration
        while True:
            self.flush(self.client)
            self.flush(self.server)
            candidates = []
            if self.inflight:
                candidates.append(min(x[0] for x in self.inflight))
            for c in (self.client, self.server):
                t = c.get_timer()
                if t is not None:
                    candidates.append(t)
            if not candidates:
                break
            t = max(min(candidates), self.now)
            if t > end:
                break
            self.now = t
            due = sorted(x for x in self.inflight if x[0] <= self.now)
            self.inflight = [x for x in self.inflight if x[0] > self.now]
            for _, _, receiver, data, addr in due:
                receiver.receive_datagram(data, addr, now=self.now)
                if receiver is self.server:
                    self.server_started = True
                self.collect(receiver)
                if self.transmit_after_each:
                    self.flush(receiver)
            for c in (self.client, self.server):
                t = c.get_timer()
                if t is not None and t <= self.now:
                    c.handle_timer(now=self.now)
                    self.collect(c)
        self.now = end


def handshake(sim):
    sim.client.connect(SERVER_ADDR, now=sim.now)
    sim.run(1.0)
    if not any(
        isinstance(e, events.HandshakeCompleted)
        for e in sim.events[id(sim.server)]
    ):
        print("SETUP FAILURE: handshake did not complete")
        sys.exit(2)


def terminations(sim):
    out = []
    for c, label in ((sim.client, "client"), (sim.server, "server")):
        for e in sim.events[id(c)]:
            if isinstance(e, events.ConnectionTerminated):
                print(
                    "  %s ConnectionTerminated: error_code=0x%x frame_type=%s "
                    "reason=%r" % (label, e.error_code, e.frame_type, e.reason_phrase)
                )
                out.append(e)
    return out


# --------------------------------------------------------------------------
# (i) RESET_STREAM processed twice, honest endpoints
# --------------------------------------------------------------------------
MAX_DATA = 20000
SENT = 12000


def run_reset(mode):
    """
    mode "control":    the network loses the stream data, nothing else.
    mode "duplicate":  ... and delivers the datagram carrying RESET_STREAM twice,
                       back to back (the server transmits after the batch).
    mode "retransmit": ... and delays the datagram carrying RESET_STREAM by 3 s:
                       the client's loss recovery retransmits RESET_STREAM in a
                       new packet, then the old one arrives too.  The server
                       transmits after every datagram.  No datagram is duplicated.
    """
    print("  run %s" % mode)
    sim = Sim(server_options={"max_data": MAX_DATA, "max_stream_data": MAX_DATA})
    sim.transmit_after_each = mode != "duplicate"
    client, server = sim.client, sim.server
    handshake(sim)

    # the request body is sent but the network loses all of it
    sim.route = lambda sender, data: [] if sender is client else None
    client.send_stream_data(0, bytes(SENT))
    sim.run(0.1)

    # the application gives up: RESET_STREAM(final_size=SENT)
    special = {"duplicate": [0.02, 0.02], "retransmit": [3.0], "control": None}[mode]
    sim.route = lambda sender, data: special if sender is client else None
    client.reset_stream(0, 7)
    sim.flush(client)  # the datagram(s) carrying the RESET_STREAM
    sim.route = lambda sender, data: None
    sim.run(10.0)

    resets = [e for e in sim.events[id(server)] if isinstance(e, events.StreamReset)]
    print(
        "    client sent %d bytes on stream 0 in total (advertised MAX_DATA was %d);"
        " server saw %d StreamReset event(s); server connection-level accounting: "
        "used=%d limit=%d"
        % (
            SENT,
            MAX_DATA,
            len(resets),
            server._local_max_data.used,
            server._local_max_data.value,
        )
    )
    return terminations(sim), server._local_max_data.used


def check_reset_twice():
    print("--- (i) RESET_STREAM processed twice is charged twice")
    ok = True
    control, used_control = run_reset("control")
    if control or used_control != SENT:
        print("  UNEXPECTED: control run terminated or mis-accounted")
        return False
    dup, used_dup = run_reset("duplicate")
    if dup:
        print(
            "  DEFECT (i, duplicate): the client never sent more than %d bytes with "
            "a limit of %d, the network only lost datagrams and duplicated one, and "
            "the connection was closed with FLOW_CONTROL_ERROR: the second copy of "
            "RESET_STREAM was charged again (%d + %d > %d)."
            % (SENT, MAX_DATA, SENT, SENT, MAX_DATA)
        )
        ok = False
    elif used_dup != used_control:
        print("  DEFECT (i, duplicate): accounted %d instead of %d" % (used_dup, SENT))
        ok = False
    rtx, used_rtx = run_reset("retransmit")
    if rtx or used_rtx != used_control:
        print(
            "  DEFECT (i, retransmit): no datagram was duplicated, the honest "
            "client retransmitted RESET_STREAM after a delay in the network, and "
            "the server now accounts %d bytes of connection flow control for a peer "
            "that sent %d bytes in total%s."
            % (used_rtx, SENT, " and closed the connection" if rtx else "")
        )
        ok = False
    if ok:
        print("  OK")
    return ok


# --------------------------------------------------------------------------
# (ii) final size below highest received offset, hostile client
# --------------------------------------------------------------------------
def craft(client, write_frames):
    """
    Build one 1-RTT datagram exactly as the client would (its connection IDs,
    its keys, its next packet number) with arbitrary frames.
    """
    builder = QuicPacketBuilder(
        host_cid=client.host_cid,
        peer_cid=client._peer_cid.cid,
        version=client._version,
        is_client=True,
        max_datagram_size=1200,
        packet_number=client._packet_number,
    )
    builder.start_packet(QuicPacketType.ONE_RTT, client._cryptos[tls.Epoch.ONE_RTT])
    write_frames(builder)
    datagrams, _ = builder.flush()
    client._packet_number = builder.packet_number
    assert len(datagrams) == 1
    return datagrams[0]


def run_final_size(kind):
    sim = Sim()
    client, server = sim.client, sim.server
    handshake(sim)

    # honest part: 1000 bytes on stream 0, delivered and acknowledged
    client.send_stream_data(0, bytes(1000))
    sim.run(1.0)
    received = sum(
        len(e.data)
        for e in sim.events[id(server)]
        if isinstance(e, events.StreamDataReceived) and e.stream_id == 0
    )
    print("  server has received %d bytes on stream 0" % received)

    def write_frames(builder):
        if kind == "reset":
            buf = builder.start_frame(QuicFrameType.RESET_STREAM, capacity=16)
            buf.push_uint_var(0)  # stream id
            buf.push_uint_var(7)  # error code
            buf.push_uint_var(10)  # final size: BELOW the 1000 bytes received
        else:
            # STREAM, offset 0, length 10, FIN  => final size 10
            buf = builder.start_frame(
                QuicFrameType.STREAM_BASE | 2 | 1, capacity=16
            )
            buf.push_uint_var(0)  # stream id
            buf.push_uint16(10 | 0x4000)
            buf.push_bytes(bytes(10))

    datagram = craft(client, write_frames)
    n_before = len(sim.events[id(server)])
    server.receive_datagram(datagram, CLIENT_ADDR, now=sim.now)
    sim.collect(server)
    new_events = sim.events[id(server)][n_before:]
    print("  server events after the hostile packet: %r" % (new_events,))
    # let the server speak (CONNECTION_CLOSE would go out here)
    sim.flush(server)
    sim.run(1.0)
    closes = [
        e
        for e in sim.events[id(server)] + sim.events[id(client)]
        if isinstance(e, events.ConnectionTerminated)
    ]
    terminations(sim)
    stream = server._streams.get(0)
    if stream is not None:
        print(
            "  server stream 0 receiver: highest_offset=%d _final_size=%r "
            "is_finished=%s"
            % (
                stream.receiver.highest_offset,
                stream.receiver._final_size,
                stream.receiver.is_finished,
            )
        )
    return any(e.error_code == QuicErrorCode.FINAL_SIZE_ERROR for e in closes)


def check_final_size(kind, label):
    print("--- (ii) %s" % label)
    if run_final_size(kind):
        print("  OK: FINAL_SIZE_ERROR raised")
        return True
    print(
        "  DEFECT (ii): final size 10 announced after 1000 bytes had been received "
        "on the stream; RFC 9000 section 4.5 requires FINAL_SIZE_ERROR, the server "
        "accepted it."
    )
    return False


def main():
    results = [
        check_reset_twice(),
        check_final_size("reset", "(a) RESET_STREAM final_size=10 after 1000 bytes"),
        check_final_size("fin", "(b) STREAM offset=0 len=10 FIN after 1000 bytes"),
    ]
    return 0 if all(results) else 1


if __name__ == "__main__":
    sys.exit(main())
