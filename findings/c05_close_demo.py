import sys; sys.path.insert(0,"/repo")
from tests.test_connection import client_and_server
from aioquic.quic.packet import QuicErrorCode
class T:
    def assertEqual(self,a,b): assert a==b,(a,b)
    def assertTrue(self,a): assert a
    def assertFalse(self,a): assert not a
    def assertIsNone(self,a): assert a is None
    def assertIsNotNone(self,a): assert a is not None
    def assertGreaterEqual(self,a,b): assert a>=b
import time
with client_and_server() as (client, server):
    client.close(error_code=0x10e, reason_phrase="Header %r contains invalid characters" % (b"x"*3000))
    try:
        d = client.datagrams_to_send(now=time.time())
        print("OK datagrams_to_send returned", [len(x[0]) for x in d])
        for data, addr in d: server.receive_datagram(data, ("1.2.3.4",1234), now=time.time())
        ev = None
        while True:
            e = server.next_event()
            if e is None: break
            ev = e
        print("server saw", type(ev).__name__, getattr(ev,'error_code',None), len(getattr(ev,'reason_phrase','')))
    except Exception as exc:
        print("DEFECT datagrams_to_send raised", type(exc).__name__); sys.exit(1)
