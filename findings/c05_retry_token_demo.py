"""C05 finding (fixed): a Retry packet with a 1154-byte token leaves exactly one byte of room after the
Initial header; the PING probe fits, the sample-size padding byte does not, and datagrams_to_send
raised BufferWriteError.  exit 0 when no API call raises."""
from aioquic.quic.configuration import QuicConfiguration
from aioquic.quic.connection import QuicConnection
from aioquic.quic.packet import encode_quic_retry, pull_quic_header
from aioquic.buffer import Buffer
ADDR = ("1.2.3.4", 4433)
L=1154
c = QuicConnection(configuration=QuicConfiguration(is_client=True))
now = 0.0
c.connect(ADDR, now=now)
dgrams = c.datagrams_to_send(now=now)
hdr = pull_quic_header(Buffer(data=dgrams[0][0]), host_cid_length=8)
retry = encode_quic_retry(version=hdr.version, source_cid=b"\x11"*8, destination_cid=c.host_cid,
    original_destination_cid=hdr.destination_cid, retry_token=b"T"*L)
c.receive_datagram(retry, ADDR, now=0.01)
now=0.01
for i in range(12):
    print(i, [len(d) for d,_ in c.datagrams_to_send(now=now)])
    now = c.get_timer()
    if now is None:
        break
    c.handle_timer(now=now)
print("OK: no API call raised")
